------------------------------ MODULE EnvAlgebra ------------------------------
(***************************************************************************)
(* X07 - the `Environments` container of coba/environments/core.py (35-1162)*)
(* as an ALGEBRA OF PIPELINES.                                             *)
(*                                                                         *)
(* An Environments value is a SEQUENCE OF PIPELINES, a pipeline is a       *)
(* SEQUENCE OF STAGES, a stage is a tagged record                          *)
(*      [k |-> kind, a |-> <<integers>>, s |-> <<strings>>]                *)
(* (source first).  Every public call is an operator from Environments     *)
(* values to a new Environments value (or to an observation); a BEHAVIOUR  *)
(* is a history of calls on a growing STORE `objs` of Environments objects:*)
(* every call names its receiver (any object made so far - the same object *)
(* is the receiver of several different chains) and, for `+` and           *)
(* `Environments(a, b)`, a second operand.  One action per public call:    *)
(* Shortcut (one of the filter shortcuts), Construct_ (the static          *)
(* constructors), GetSlice, Add, Wrap (Environments(...) over pipelines    *)
(* the user took out by indexing / over Environments objects), Observe     *)
(* (len, iteration, integer index, str, reversed).                         *)
(*                                                                         *)
(* What the module states (the numbers are lines of core.py):              *)
(*  * a shortcut adds its filter(s) at the END of every pipeline of the    *)
(*    receiver and returns a NEW object; the receiver keeps its pipelines  *)
(*    (647-1136).  Nothing else is added - in particular no Finalize.      *)
(*  * a shortcut with a multi-valued argument (reservoir seeds 823, cycle  *)
(*    772, noise seeds 912, logged learners 1028, ope_rewards 1057, filter *)
(*    [f..] 1135) makes exactly one pipeline per (pipeline, value) pair in *)
(*    ENVIRONMENT-MAJOR order: e1v1 e1v2 .. e2v1 e2v2 ..  An empty value   *)
(*    list gives the empty Environments.                                   *)
(*  * shuffle (701-733) makes one pipeline per (pipeline, seed) pair and   *)
(*    orders them by the seed of THIS call (stable: receiver order within  *)
(*    one seed) - tests test_shuffle_seeds / _n / _args.  shuffle() is     *)
(*    shuffle(1); shuffle(n=k) is shuffle(range(k)) - "the number of       *)
(*    shuffling orders to produce"; "a new environment is made for every   *)
(*    seed", so no seed - no environment.  All spellings of the same seeds *)
(*    (positional int / list / tuple / several positionals / range /       *)
(*    generator / seed= / seeds= / n=) mean the same.                      *)
(*  * impute(stats=[..]) (867-871) chains one Impute per statistic on      *)
(*    every pipeline; chunk (1010) adds Chunk and, unless cache=False, an  *)
(*    environment Cache; cache (1123) adds a Cache; materialize (926-947)  *)
(*    finalizes, drops the unprotected caches and ends the pipeline with a *)
(*    protected pipes.Cache - unless the finalized pipeline already ends   *)
(*    with a cache (mirrors the code, the docstring is silent).            *)
(*  * the static constructors make one single-stage pipeline per seed in   *)
(*    the order given (117-243); Environments(..) and from_custom flatten *)
(*    ONE level of list / tuple / generator (638-645).                     *)
(*  * sequence protocol (1142-1158): len; iteration and integer index give *)
(*    the pipeline with the final BatchSafe(Finalize()) stage appended     *)
(*    UNLESS the pipeline already holds one (1138-1140) - and change       *)
(*    nothing; an integer outside -n..n-1 raises IndexError; slices and    *)
(*    `+` give Environments over the very same pipelines (no Finalize);    *)
(*    str numbers the finalized pipelines from 1.                          *)
(*  * Environments(x) over pipelines obtained by indexing / iterating      *)
(*    (they carry the Finalize stage) keeps them as they are - so does     *)
(*    Environments(a, b) over Environments objects (their iteration).      *)
(*  * params of a pipeline (pipes/utilities.py 7-31): the keys of its      *)
(*    stages in stage order; a key that occurs in several stages is        *)
(*    numbered key1, key2, .. in stage order.  StageKeys is the key list   *)
(*    of each stage kind; the VALUES are the real stages' own (driver).    *)
(*                                                                         *)
(* Encoding of arguments.  A call is                                       *)
(*   [op, f, x, y, vf, v]   f  = "p" positional | "k" keyword spelling     *)
(*                          x  = the leading integer arguments given       *)
(*                          y  = the leading string arguments given        *)
(*                          vf = how the multi-valued argument is spelled  *)
(*                               (omit one list tuple range gen varargs n  *)
(*                                kwone kwsone kwlist kwseedlist kwrange   *)
(*                                kwgen mixed)                             *)
(*                          v  = its values (range / n: <<k>> = 0..k-1)    *)
(* arguments not given take the documented defaults (DefX / DefY / DefV).  *)
(* Integers: booleans 0/1, None = -1 (slice bounds: None = 99).            *)
(* logged seed = 100 * seed (123 = the default 1.23, -1 = None).           *)
(* noise context/action/reward: 0 None, 1 (0,1), 2 ('g',0,1), 3 ('i',0,1). *)
(* impute statistic: 1 mean, 2 median, 3 mode.  ope_rewards: 0 None, 1 IPS.*)
(* filter: k = the user's filter object k, 9 = BatchSafe(Finalize()).      *)
(* The Finalize stage is [k |-> "Fin", a |-> <<origin>>]: 0 appended by    *)
(* iteration / index (never stored), 1 added by the user with filter(),    *)
(* 2 arrived inside a pipeline the user re-wrapped, 3 materialize.  The    *)
(* origin is bookkeeping of the spec (the driver compares the kind only).  *)
(*                                                                         *)
(* Variant = "ok" is the algebra.  Deliberately broken designs that TLC    *)
(* must reject:                                                            *)
(*   "shuffle_iter"  shuffle orders the ITERATION of its result (so every  *)
(*                   pipeline comes back with a Finalize stage in it)      *)
(*   "value_major"   filter([f1,f2]) in value-major order                  *)
(*   "inplace"       a shortcut also extends the receiver's own pipelines  *)
(*   "fin_always"    iteration appends Finalize without looking            *)
(*   "slice_fin"     a slice returns finalized pipelines                   *)
(***************************************************************************)
EXTENDS Integers, Sequences, FiniteSets, TLC, Json
CONSTANTS Start,     \* the initial store: a sequence of Environments values
          Calls,     \* the calls a behaviour may start with
          Later,     \* the calls it may continue with
          MaxOps,    \* calls per behaviour
          MaxLen,    \* no Environments with more pipelines is built (bound)
          Variant
VARIABLES objs, hist, n
vars == <<objs, hist, n>>

NoneI == 99
St(k, a, s) == [k |-> k, a |-> a, s |-> s]
FinStage(o) == St("Fin", <<o>>, <<>>)
IsFin(st)   == st.k = "Fin"
HasFin(p)   == \E i \in DOMAIN p : IsFin(p[i])
CountFin(p) == Cardinality({i \in DOMAIN p : IsFin(p[i])})
ECache == St("ECache", <<25, 0>>, <<>>)      \* coba.environments.filters.Cache(25)
PCache == St("PCache", <<-1, 1>>, <<>>)      \* coba.pipes.Cache(None, protected=True)
IsCache(st) == st.k \in {"ECache", "PCache"}
Chunk  == St("Chunk", <<>>, <<>>)

(* ---------------- arguments ---------------- *)
Fill(x, d) == x \o SubSeq(d, Len(x) + 1, Len(d))
DefX(op) == CASE op = "sparse" -> <<1, 0>>            [] op = "dense" -> <<0, 1, 0>>
              [] op = "riffle" -> <<0, 1>>            [] op = "take" -> <<0, 0>>
              [] op = "slice" -> <<0, -1, 1>>         [] op = "reservoir" -> <<0, 0>>
              [] op = "scale" -> <<-1>>               [] op = "impute" -> <<1, -1>>
              [] op = "where" -> <<-1, -1, -1>>       [] op = "noise" -> <<0, 0, 0>>
              [] op = "grounded" -> <<0, 0, 0, 0, 1>> [] op = "batch" -> <<0>>
              [] op = "chunk" -> <<1>>                [] op = "logged" -> <<123>>
              [] op = "from_linear" -> <<0, 5, 5, 5, 5>>       [] op = "from_bandit" -> <<0, 5>>
              [] op = "from_neighbors" -> <<0, 5, 5, 5, 30>>   [] op = "from_kernel" -> <<0, 5, 5, 5, 5, 3, 1>>
              [] op = "from_mlp" -> <<0, 5, 5, 5>>             [] op = "from_lambda" -> <<0, -1>>
              [] OTHER -> <<>>
DefY(op) == CASE op = "scale" -> <<"min", "minmax", "context">>
              [] op = "repr" -> <<"onehot", "onehot">>
              [] op = "batch" -> <<"list">>
              [] op = "from_kernel" -> <<"gaussian">>
              [] op = "from_supervised" -> <<"None">>
              [] OTHER -> <<>>
DefV(op) == CASE op \in {"shuffle", "reservoir", "noise"} -> <<1>>
              [] op = "ope" -> <<0>>
              [] op = "impute" -> <<1>>
              [] op \in {"from_linear", "from_bandit", "from_neighbors", "from_kernel", "from_mlp"} -> <<1>>
              [] OTHER -> <<>>
NX(c) == Fill(c.x, DefX(c.op))
NY(c) == IF c.op = "from_linear" THEN (IF c.y = <<>> THEN <<"a", "xa">> ELSE c.y)       \* reward_features is ONE list argument
         ELSE Fill(c.y, DefY(c.op))
Upto0(k) == [i \in 1..k |-> i - 1]
Vals(c) == CASE c.vf = "omit" -> DefV(c.op)
             [] c.vf \in {"range", "kwrange", "n"} -> Upto0(c.v[1])
             [] OTHER -> c.v
StatName(i) == CASE i = 1 -> "mean" [] i = 2 -> "median" [] OTHER -> "mode"
OpeName(i)  == IF i = 1 THEN "IPS" ELSE "None"

(* ---------------- the stage a shortcut adds (val = the value of the multi-valued argument) ---------------- *)
StageOf(c, val) ==
  LET x == NX(c)  y == NY(c) IN
  CASE c.op = "binary"    -> St("Binary", <<>>, <<>>)                                   \* 656
    [] c.op = "sparse"    -> St("Sparsify", <<x[1], x[2]>>, <<>>)                       \* 668 (context, action)
    [] c.op = "dense"     -> St("Densify", <<x[1], x[2], x[3]>>, <<y[1]>>)              \* 686 (n_feats, context, action; method)
    [] c.op = "shuffle"   -> St("Shuffle", <<val>>, <<>>)                               \* 726
    [] c.op = "sort"      -> St("Sort", Vals(c), <<>>)                                  \* 744 (all keys in ONE stage)
    [] c.op = "riffle"    -> St("Riffle", <<x[1], x[2]>>, <<>>)                         \* 759 (spacing, seed)
    [] c.op = "cycle"     -> St("Cycle", <<val>>, <<>>)                                 \* 773
    [] c.op = "params"    -> St("Params", <<x[1]>>, <<y[1]>>)                           \* 784 {y1: x1}
    [] c.op = "take"      -> St("Take", <<x[1], x[2]>>, <<>>)                           \* 796 (n, strict)
    [] c.op = "slice"     -> St("Slice", <<x[1], x[2], x[3]>>, <<>>)                    \* 809 (start, stop, step)
    [] c.op = "reservoir" -> St("Reservoir", <<x[1], val, x[2]>>, <<>>)                 \* 824 (n, seed, strict)
    [] c.op = "scale"     -> St("Scale", <<x[1]>>, <<y[1], y[2], y[3]>>)                \* 848 (using; shift, scale, target)
    [] c.op = "impute"    -> St("Impute", <<x[1], x[2]>>, <<StatName(val)>>)            \* 870 (indicator, using; stat)
    [] c.op = "where"     -> St("Where", <<x[1], x[2], x[3]>>, <<>>)                    \* 887
    [] c.op = "noise"     -> St("Noise", <<x[1], x[2], x[3], val>>, <<>>)               \* 913
    [] c.op = "flatten"   -> St("Flatten", <<>>, <<>>)                                  \* 924
    [] c.op = "grounded"  -> St("Grounded", <<x[1], x[2], x[3], x[4], x[5]>>, <<>>)     \* 967
    [] c.op = "repr"      -> St("Repr", <<>>, <<y[1], y[2]>>)                           \* 981
    [] c.op = "batch"     -> St("Batch", <<x[1]>>, <<y[1]>>)                            \* 993
    [] c.op = "unbatch"   -> St("Unbatch", <<>>, <<>>)                                  \* 1041
    [] c.op = "logged"    -> St("Logged", <<val, x[1]>>, <<>>)                          \* 1029 (learner, seed)
    [] c.op = "ope"       -> St("OpeRewards", <<>>, <<OpeName(val)>>)                   \* 1058
    [] c.op = "filter"    -> IF val = 9 THEN FinStage(1) ELSE St("F", <<val>>, <<>>)    \* 1136
SingleOps == {"binary", "sparse", "dense", "sort", "riffle", "params", "take", "slice", "scale", "where", "flatten",
              "grounded", "repr", "batch", "unbatch"}
MultiOps  == {"cycle", "reservoir", "noise", "logged", "ope", "filter"}       \* environment-major
ShortcutOps == SingleOps \cup MultiOps \cup {"shuffle", "impute", "chunk", "cache", "materialize"}
ConstructOps == {"from_linear", "from_bandit", "from_neighbors", "from_kernel", "from_mlp", "from_lambda", "from_supervised",
                 "from_custom", "ctor"}
ObserveOps == {"len", "iter", "index", "str", "reversed"}

(* ---------------- the plumbing ---------------- *)
Each1(E, st) == [i \in DOMAIN E |-> Append(E[i], st)]
RECURSIVE EnvMajor(_, _)
EnvMajor(E, sts) == IF E = <<>> THEN <<>> ELSE [v \in DOMAIN sts |-> Append(Head(E), sts[v])] \o EnvMajor(Tail(E), sts)
RECURSIVE ValueMajor(_, _)
ValueMajor(E, sts) == IF sts = <<>> THEN <<>> ELSE Each1(E, Head(sts)) \o ValueMajor(E, Tail(sts))
RECURSIVE Chain(_, _)
Chain(E, sts) == IF sts = <<>> THEN E ELSE Chain(Each1(E, Head(sts)), Tail(sts))
(* stable insertion sort of pipelines by the argument of their LAST stage *)
KeyOf(p) == p[Len(p)].a[1]
RECURSIVE InsertBy(_, _)
InsertBy(S, p) == IF S = <<>> THEN <<p>>
                  ELSE IF KeyOf(S[Len(S)]) <= KeyOf(p) THEN Append(S, p)
                  ELSE Append(InsertBy(SubSeq(S, 1, Len(S) - 1), p), S[Len(S)])
RECURSIVE SortByKey(_)
SortByKey(S) == IF S = <<>> THEN <<>> ELSE InsertBy(SortByKey(SubSeq(S, 1, Len(S) - 1)), S[Len(S)])

(* the final stage of iteration / index: appended unless one is there (1138-1140) *)
Fin(p, o) == IF HasFin(p) /\ Variant # "fin_always" THEN p ELSE Append(p, FinStage(o))
Iter(E, o) == [i \in DOMAIN E |-> Fin(E[i], o)]
(* materialize (939-946) *)
Mat(p) == LET f == Fin(p, 3) IN
          IF IsCache(f[Len(f)]) THEN f
          ELSE Append(SelectSeq(f, LAMBDA st : ~(IsCache(st) /\ st.a[2] = 0)), PCache)

(* Python's slice over 0-based positions *)
Clamp(v, lo, hi) == IF v < lo THEN lo ELSE IF v > hi THEN hi ELSE v
PyIdx(nn, a, b, s) ==
  LET st == IF s = NoneI THEN 1 ELSE s IN
  IF st > 0 THEN
     LET lo  == IF a = NoneI THEN 0  ELSE Clamp(IF a < 0 THEN a + nn ELSE a, 0, nn)
         hi  == IF b = NoneI THEN nn ELSE Clamp(IF b < 0 THEN b + nn ELSE b, 0, nn)
         cnt == IF hi > lo THEN (hi - lo + st - 1) \div st ELSE 0
     IN [k \in 1..cnt |-> lo + (k - 1) * st]
  ELSE
     LET lo  == IF a = NoneI THEN nn - 1 ELSE Clamp(IF a < 0 THEN a + nn ELSE a, -1, nn - 1)
         hi  == IF b = NoneI THEN -1     ELSE Clamp(IF b < 0 THEN b + nn ELSE b, -1, nn - 1)
         cnt == IF lo > hi THEN (lo - hi + (0 - st) - 1) \div (0 - st) ELSE 0
     IN [k \in 1..cnt |-> lo + (k - 1) * st]
GetSliceOf(E, a, b, s) == LET ix == PyIdx(Len(E), a, b, s)
                              R  == [k \in DOMAIN ix |-> E[ix[k] + 1]]
                          IN IF Variant = "slice_fin" THEN Iter(R, 0) ELSE R

(* ---------------- one operator per shortcut ---------------- *)
Shuffled(E, c) == LET base == EnvMajor(E, [i \in DOMAIN Vals(c) |-> StageOf(c, Vals(c)[i])])
                      srt  == SortByKey(base)
                  IN IF Variant = "shuffle_iter" THEN [i \in DOMAIN srt |-> Append(srt[i], FinStage(0))] ELSE srt
ApplyShortcut(E, c) ==
  CASE c.op \in SingleOps -> Each1(E, StageOf(c, 0))
    [] c.op \in MultiOps  -> LET sts == [i \in DOMAIN Vals(c) |-> StageOf(c, Vals(c)[i])] IN
                             IF Variant = "value_major" /\ c.op = "filter" THEN ValueMajor(E, sts) ELSE EnvMajor(E, sts)
    [] c.op = "shuffle"   -> Shuffled(E, c)
    [] c.op = "impute"    -> Chain(E, [i \in DOMAIN Vals(c) |-> StageOf(c, Vals(c)[i])])
    [] c.op = "chunk"     -> IF NX(c)[1] = 1 THEN Each1(Each1(E, Chunk), ECache) ELSE Each1(E, Chunk)
    [] c.op = "cache"     -> Each1(E, ECache)
    [] c.op = "materialize" -> [i \in DOMAIN E |-> Mat(E[i])]

(* ---------------- constructors ---------------- *)
SourceOf(c, seed) ==
  LET x == NX(c)  y == NY(c) IN
  CASE c.op = "from_linear"    -> St("Linear", <<x[1], x[2], x[3], x[4], x[5], seed>>, y)
    [] c.op = "from_bandit"    -> St("Bandit", <<x[1], x[2], seed>>, <<>>)
    [] c.op = "from_neighbors" -> St("Neighbors", <<x[1], x[2], x[3], x[4], x[5], seed>>, <<>>)
    [] c.op = "from_kernel"    -> St("Kernel", <<x[1], x[2], x[3], x[4], x[5], x[6], x[7], seed>>, <<y[1]>>)
    [] c.op = "from_mlp"       -> St("MLP", <<x[1], x[2], x[3], x[4], seed>>, <<>>)
Construct(c) ==
  CASE c.op \in {"from_linear", "from_bandit", "from_neighbors", "from_kernel", "from_mlp"} ->
            [i \in DOMAIN Vals(c) |-> <<SourceOf(c, Vals(c)[i])>>]                       \* one environment per seed, in order
    [] c.op = "from_lambda"     -> << <<St("Lambda", <<NX(c)[1], NX(c)[2]>>, <<>>)>> >>
    [] c.op = "from_supervised" -> << <<St("Supervised", <<>>, <<NY(c)[1]>>)>> >>
    [] c.op \in {"from_custom", "ctor"} -> [i \in DOMAIN c.v |-> <<St("Src", <<c.v[i]>>, <<>>)>>]

(* Environments(a[i], a[j], ..): pipelines taken out by indexing (0-based, as the user writes them) and wrapped again *)
WrapIdx(E, c)  == [i \in DOMAIN c.v |-> Fin(E[IF c.v[i] < 0 THEN Len(E) + c.v[i] + 1 ELSE c.v[i] + 1], 2)]
IdxOK(E, c)    == \A i \in DOMAIN c.v : c.v[i] \in (0 - Len(E))..(Len(E) - 1)
(* Environments(a) / Environments(a, b): an Environments is a Sequence, so the constructor takes its iteration *)
WrapIter(E, F) == Iter(E, 2) \o Iter(F, 2)

(* ---------------- params (pipes/utilities.py resolve_params) ---------------- *)
StageKeys(st) ==
  CASE st.k = "Src" -> <<"id">>
    [] st.k = "Lambda" -> IF st.a[2] = -1 THEN <<"env_type">> ELSE <<"env_type", "seed">>
    [] st.k = "Linear" -> <<"env_type", "reward_features", "n_coeff", "n_actions", "seed">>
    [] st.k = "Bandit" -> <<"env_type", "n_actions", "seed">>
    [] st.k = "Neighbors" -> <<"env_type", "n_neighborhoods", "n_actions", "seed">>
    [] st.k = "Kernel" -> <<"env_type", "n_exemplars", "kernel">>
                          \o (IF st.s[1] = "polynomial" THEN <<"degree">> ELSE IF st.s[1] \in {"exponential", "gaussian"} THEN <<"gamma">> ELSE <<>>)
                          \o <<"n_actions", "seed">>
    [] st.k = "MLP" -> <<"env_type", "n_actions", "seed">>
    [] st.k = "Supervised" -> <<"source", "label_type", "env_type">>
    [] st.k = "Binary" -> <<"binary">>
    [] st.k = "Sparsify" -> <<"sparse_c", "sparse_a">>
    [] st.k = "Densify" -> <<"dense_m", "dense_n", "dense_c", "dense_a">>
    [] st.k = "Shuffle" -> <<"shuffle_seed">>
    [] st.k = "Sort" -> <<"sort_keys">>
    [] st.k = "Riffle" -> <<"riffle_spacing", "riffle_seed">>
    [] st.k = "Cycle" -> <<"cycle_after">>
    [] st.k = "Params" -> <<st.s[1]>>
    [] st.k = "Take" -> <<"take">>
    [] st.k = "Slice" -> IF st.a[3] = 1 THEN <<"slice_start", "slice_stop">> ELSE <<"slice_start", "slice_stop", "slice_step">>
    [] st.k = "Reservoir" -> <<"reservoir_count", "reservoir_seed">>
    [] st.k = "Scale" -> <<"shift", "scale", "scale_using">>
    [] st.k = "Impute" -> <<"impute_stat", "impute_using", "impute_indicator">>
    [] st.k = "Where" -> (IF st.a[1] # -1 THEN <<"where_n_interactions">> ELSE <<>>) \o (IF st.a[2] # -1 THEN <<"where_n_actions">> ELSE <<>>)
                         \o (IF st.a[3] # -1 THEN <<"where_n_features">> ELSE <<>>)
    [] st.k = "Noise" -> (IF st.a[1] # 0 \/ (st.a[1] = 0 /\ st.a[2] = 0 /\ st.a[3] = 0) THEN <<"context_noise">> ELSE <<>>)      \* all None: context ('g',0,1)
                         \o (IF st.a[2] # 0 THEN <<"action_noise">> ELSE <<>>) \o (IF st.a[3] # 0 THEN <<"reward_noise">> ELSE <<>>) \o <<"noise_seed">>
    [] st.k = "Flatten" -> <<"flat">>
    [] st.k = "Grounded" -> <<"n_users", "n_normal", "n_good", "n_words", "igl_seed">>
    [] st.k = "Repr" -> <<"categoricals_in_context", "categoricals_in_actions">>
    [] st.k = "Batch" -> <<"batch_size", "batch_type">>
    [] st.k = "Logged" -> <<"family", "seed", "learner", "logged", "log_seed">>
    [] st.k = "OpeRewards" -> <<"ope_reward">>
    [] st.k = "F" -> <<"uf">>
    [] OTHER -> <<>>                  \* Unbatch, Chunk, the caches, Finalize
RECURSIVE AllKeys(_)
AllKeys(p) == IF p = <<>> THEN <<>> ELSE StageKeys(Head(p)) \o AllKeys(Tail(p))
Renamed(ks) == [j \in DOMAIN ks |->
                  IF Cardinality({i \in DOMAIN ks : ks[i] = ks[j]}) = 1 THEN ks[j]
                  ELSE ks[j] \o ToString(Cardinality({i \in 1..j : ks[i] = ks[j]}))]
ParamKeys(p) == Renamed(AllKeys(p))

(* ---------------- behaviours ---------------- *)
FinAdd(R)  == [i \in DOMAIN R |-> IF HasFin(R[i]) THEN 0 ELSE 1]        \* 1: iteration / index appends the Finalize stage to pipeline i
KeysOf(R)  == [i \in DOMAIN R |-> ParamKeys(R[i])]
NewRec(c, r, q, R) == [c |-> c, r |-> r, q |-> q, kind |-> "new", res |-> R, finadd |-> FinAdd(R), keys |-> KeysOf(R), val |-> <<Len(R)>>, err |-> ""]
ObsRec(c, r, R, val, err) == [c |-> c, r |-> r, q |-> 0, kind |-> "obs", res |-> R, finadd |-> [i \in DOMAIN R |-> 0], keys |-> KeysOf(R), val |-> val, err |-> err]

Init == objs = Start /\ hist = <<>> /\ n = 0
Made(r, q, c, R) == /\ Len(R) <= MaxLen
                    /\ objs' = Append(IF Variant = "inplace" /\ c.op \in SingleOps THEN [objs EXCEPT ![r] = R] ELSE objs, R)
                    /\ hist' = Append(hist, NewRec(c, r, q, R))
(* a filter shortcut on receiver r *)
Endless(p) == p[1].k = "Bandit" /\ p[1].a[1] = -1          \* n_interactions = None: the environment never ends; materialize READS (944), so it is not for these
DoShortcut(r, c) == /\ c.op \in ShortcutOps
                    /\ c.op = "materialize" => \A i \in DOMAIN objs[r] : ~Endless(objs[r][i])
                    /\ Made(r, 0, c, ApplyShortcut(objs[r], c))
(* a static constructor (the receiver plays no part: r = 0) *)
DoConstruct(c)   == /\ c.op \in ConstructOps
                    /\ LET R == Construct(c) IN /\ Len(R) <= MaxLen /\ objs' = Append(objs, R) /\ hist' = Append(hist, NewRec(c, 0, 0, R))
(* receiver[a:b:s] *)
DoGetSlice(r, c) == /\ c.op = "getslice" /\ Made(r, 0, c, GetSliceOf(objs[r], c.x[1], c.x[2], c.x[3]))
(* receiver + other *)
DoAdd(r, q, c)   == /\ c.op = "add" /\ Made(r, q, c, objs[r] \o objs[q])
(* Environments(r[i], r[j], ..) and Environments(r) / Environments(r, q) *)
DoWrap(r, q, c)  == \/ /\ c.op = "wrap_idx" /\ q = 0 /\ IdxOK(objs[r], c) /\ Made(r, 0, c, WrapIdx(objs[r], c))
                    \/ /\ c.op = "wrap_iter" /\ Made(r, q, c, WrapIter(objs[r], IF q = 0 THEN <<>> ELSE objs[q]))
(* len / iteration / integer index / str / reversed: an observation; the store stays as it is *)
DoObserve(r, c)  == /\ c.op \in ObserveOps
                    /\ LET E == objs[r]  nn == Len(E) IN
                       /\ objs' = (IF Variant = "iter_mutates" /\ c.op # "len" THEN [objs EXCEPT ![r] = Iter(E, 0)] ELSE objs)
                       /\ hist' = Append(hist,
                            CASE c.op = "len"      -> ObsRec(c, r, <<>>, <<nn>>, "")
                              [] c.op = "iter"     -> ObsRec(c, r, Iter(E, 0), <<nn>>, "")
                              [] c.op = "str"      -> ObsRec(c, r, Iter(E, 0), [i \in 1..nn |-> i], "")            \* line i is numbered i
                              [] c.op = "reversed" -> ObsRec(c, r, [i \in 1..nn |-> Fin(E[nn + 1 - i], 0)], <<nn>>, "")
                              [] c.op = "index"    -> IF c.x[1] \in (0 - nn)..(nn - 1)
                                                      THEN ObsRec(c, r, <<Fin(E[IF c.x[1] < 0 THEN nn + c.x[1] + 1 ELSE c.x[1] + 1], 0)>>, <<>>, "")
                                                      ELSE ObsRec(c, r, <<>>, <<>>, "IndexError"))
Tick == n < MaxOps /\ n' = n + 1
Now == IF n = 0 THEN Calls ELSE Later
Shortcut  == Tick /\ \E c \in Now : \E r \in DOMAIN objs : DoShortcut(r, c)
Construct_ == Tick /\ \E c \in Now : DoConstruct(c)
GetSlice  == Tick /\ \E c \in Now : \E r \in DOMAIN objs : DoGetSlice(r, c)
Add       == Tick /\ \E c \in Now : \E r \in DOMAIN objs : \E q \in DOMAIN objs : DoAdd(r, q, c)
Wrap      == Tick /\ \E c \in Now : \E r \in DOMAIN objs : \E q \in 0..Len(objs) : DoWrap(r, q, c)
Observe   == Tick /\ \E c \in Now : \E r \in DOMAIN objs : DoObserve(r, c)
Next == Shortcut \/ Construct_ \/ GetSlice \/ Add \/ Wrap \/ Observe
Spec == Init /\ [][Next]_vars

(* ======================= the laws of the algebra (checked by TLC in every state) ======================= *)
Last == hist[Len(hist)]
IsPrefix(p, q) == Len(p) <= Len(q) /\ SubSeq(q, 1, Len(p)) = p
Rank(V, v) == 1 + Cardinality({w \in DOMAIN V : V[w] < V[v]})
Distinct(V) == \A i, j \in DOMAIN V : i # j => V[i] # V[j]
(* lengths multiply as documented, the new pipelines are the old ones + the new stage(s), in the documented order *)
OrderLaw == (hist # <<>> /\ Last.kind = "new" /\ Last.c.op \in ShortcutOps) =>
  LET c == Last.c  E == objs[Last.r]  R == Last.res  V == Vals(c)  m == Len(V) IN
  CASE c.op \in SingleOps -> Len(R) = Len(E) /\ \A e \in DOMAIN E : R[e] = Append(E[e], StageOf(c, 0))
    [] c.op \in MultiOps  -> /\ Len(R) = Len(E) * m
                             /\ \A e \in DOMAIN E : \A v \in DOMAIN V : R[(e - 1) * m + v] = Append(E[e], StageOf(c, V[v]))
    [] c.op = "shuffle"   -> /\ Len(R) = Len(E) * m
                             /\ \A j \in DOMAIN R : R[j][Len(R[j])].k = "Shuffle"                                   \* the shuffle is the LAST stage
                             /\ \A j \in 1..(Len(R) - 1) : KeyOf(R[j]) <= KeyOf(R[j + 1])                           \* ordered by this call's seed
                             /\ Distinct(V) => \A e \in DOMAIN E : \A v \in DOMAIN V :
                                                  R[(Rank(V, v) - 1) * Len(E) + e] = Append(E[e], StageOf(c, V[v]))  \* receiver order within a seed
                             /\ \A s \in {V[v] : v \in DOMAIN V} : \A e \in DOMAIN E :
                                   Cardinality({j \in DOMAIN R : R[j] = Append(E[e], StageOf(c, s))})
                                     = Cardinality({v \in DOMAIN V : V[v] = s}) * Cardinality({f \in DOMAIN E : E[f] = E[e]})
    [] c.op = "impute"    -> /\ Len(R) = Len(E)
                             /\ \A e \in DOMAIN E : /\ Len(R[e]) = Len(E[e]) + m /\ IsPrefix(E[e], R[e])
                                                    /\ \A v \in DOMAIN V : R[e][Len(E[e]) + v] = StageOf(c, V[v])
    [] c.op = "chunk"     -> Len(R) = Len(E) /\ \A e \in DOMAIN E : IsPrefix(Append(E[e], Chunk), R[e]) /\ Len(R[e]) = Len(E[e]) + 1 + NX(c)[1]
    [] c.op = "cache"     -> Len(R) = Len(E) /\ \A e \in DOMAIN E : R[e] = Append(E[e], ECache)
    [] c.op = "materialize" -> /\ Len(R) = Len(E)
                               /\ \A e \in DOMAIN E : /\ IsCache(R[e][Len(R[e])]) /\ HasFin(R[e])
                                                      /\ SelectSeq(R[e], LAMBDA st : ~IsCache(st) /\ ~IsFin(st)) = SelectSeq(E[e], LAMBDA st : ~IsCache(st) /\ ~IsFin(st))
(* one pipeline per seed, in the order given; Environments(...) keeps the order of its arguments *)
ConstructLaw == (hist # <<>> /\ Last.kind = "new" /\ Last.c.op \in ConstructOps) =>
  LET c == Last.c  R == Last.res IN
  /\ \A i \in DOMAIN R : Len(R[i]) = 1
  /\ c.op \in {"from_linear", "from_bandit", "from_neighbors", "from_kernel", "from_mlp"} =>
        (Len(R) = Len(Vals(c)) /\ \A i \in DOMAIN R : R[i][1].a[Len(R[i][1].a)] = Vals(c)[i])
  /\ c.op \in {"from_custom", "ctor"} => (Len(R) = Len(c.v) /\ \A i \in DOMAIN R : R[i][1].a[1] = c.v[i])
  /\ c.op \in {"from_lambda", "from_supervised"} => Len(R) = 1
(* no call ever changes an object that exists: the receiver (and every other object) keeps its pipelines *)
ReceiverUnchanged == [][\A i \in DOMAIN objs : objs'[i] = objs[i]]_vars
(* a stage is only ever ADDED at the end (materialize aside): every pipeline of a shortcut's result extends one of the receiver *)
PrefixLaw == (hist # <<>> /\ Last.kind = "new" /\ Last.c.op \in (ShortcutOps \ {"materialize"})) =>
               \A j \in DOMAIN Last.res : \E e \in DOMAIN objs[Last.r] : IsPrefix(objs[Last.r][e], Last.res[j])
(* `+` : concatenation - lengths add, associative, the empty Environments is its unit *)
Newest == Len(objs)        \* the laws over single objects are checked when the object appears (Init: the whole initial store)
Fresh  == IF hist = <<>> THEN DOMAIN objs ELSE {Newest}
AddLaws == /\ \A i, j, k \in DOMAIN objs : (Newest \in {i, j, k}) => (objs[i] \o objs[j]) \o objs[k] = objs[i] \o (objs[j] \o objs[k])
           /\ \A i, j \in DOMAIN objs : (Newest \in {i, j}) => Len(objs[i] \o objs[j]) = Len(objs[i]) + Len(objs[j])
           /\ (hist # <<>> /\ Last.kind = "new" /\ Last.c.op = "add") =>
                 /\ Len(Last.res) = Len(objs[Last.r]) + Len(objs[Last.q])
                 /\ \A i \in DOMAIN objs[Last.r] : Last.res[i] = objs[Last.r][i]
                 /\ \A i \in DOMAIN objs[Last.q] : Last.res[Len(objs[Last.r]) + i] = objs[Last.q][i]
(* slices: Python's laws, and a slice holds the very pipelines of its receiver *)
SliceIdx == {NoneI, -3, -1, 0, 1, 2, 4}
Norm(nn, a, dflt) == IF a = NoneI THEN dflt ELSE Clamp(IF a < 0 THEN a + nn ELSE a, 0, nn)
SliceLaws == \A o \in Fresh : LET E == objs[o]  nn == Len(E) IN
  /\ GetSliceOf(E, NoneI, NoneI, NoneI) = E
  /\ \A a \in SliceIdx : \A b \in SliceIdx :
        /\ Len(GetSliceOf(E, a, b, NoneI)) = (IF Norm(nn, b, nn) > Norm(nn, a, 0) THEN Norm(nn, b, nn) - Norm(nn, a, 0) ELSE 0)
        /\ (b # NoneI /\ Norm(nn, a, 0) <= Norm(nn, b, nn)) => GetSliceOf(E, a, b, NoneI) \o GetSliceOf(E, b, NoneI, NoneI) = GetSliceOf(E, a, NoneI, NoneI)
        /\ (a # NoneI /\ b # NoneI /\ a >= 0 /\ b >= 0) => GetSliceOf(GetSliceOf(E, a, NoneI, NoneI), b, NoneI, NoneI) = GetSliceOf(E, a + b, NoneI, NoneI)
        /\ \A j \in DOMAIN GetSliceOf(E, a, b, NoneI) : \E e \in DOMAIN E : GetSliceOf(E, a, b, NoneI)[j] = E[e]
  /\ \A k \in 0..nn : GetSliceOf(E, NoneI, k, NoneI) \o GetSliceOf(E, k, NoneI, NoneI) = E
  /\ LET rv == GetSliceOf(E, NoneI, NoneI, -1) IN Len(rv) = nn /\ \A i \in 1..nn : rv[i] = E[nn + 1 - i]
  /\ LET ev == GetSliceOf(E, NoneI, NoneI, 2) IN Len(ev) = (nn + 1) \div 2 /\ \A i \in DOMAIN ev : ev[i] = E[2 * i - 1]
(* Finalize exactly once: what iteration / index hands out has the stage, once unless the user put several; doing it again changes nothing *)
FinalizeOnce == \A o \in Fresh : \A i \in DOMAIN objs[o] : LET p == objs[o][i]  f == Fin(p, 0) IN
  /\ CountFin(f) >= 1
  /\ CountFin(p) <= 1 => CountFin(f) = 1
  /\ Fin(f, 0) = f
  /\ CountFin(p) = 0 => f = Append(p, FinStage(0))
  /\ CountFin(p) >= 1 => f = p
(* iteration and index never STORE what they append; a stored Finalize stage was put there by the user (filter / re-wrapping) or by materialize *)
NoStrayFin == \A o \in DOMAIN objs : \A i \in DOMAIN objs[o] : \A j \in DOMAIN objs[o][i] : IsFin(objs[o][i][j]) => objs[o][i][j].a[1] # 0
(* every pipeline starts with its source and holds no other source *)
SourceFirst == \A o \in Fresh : \A i \in DOMAIN objs[o] : LET p == objs[o][i] IN
  /\ p # <<>> /\ p[1].k \in {"Src", "Lambda", "Linear", "Bandit", "Neighbors", "Kernel", "MLP", "Supervised"}
  /\ \A j \in 2..Len(p) : p[j].k \notin {"Src", "Lambda", "Linear", "Bandit", "Neighbors", "Kernel", "MLP", "Supervised"}
(* params: one key per stage key, unique after the numbering, stage order kept *)
ParamLaw == \A o \in Fresh : \A i \in DOMAIN objs[o] : LET p == objs[o][i]  ks == AllKeys(p)  rk == ParamKeys(p) IN
  /\ Len(rk) = Len(ks)
  /\ \A a, b \in DOMAIN rk : a # b => rk[a] # rk[b]
  /\ \A a \in DOMAIN rk : rk[a] = ks[a] \/ \E b \in DOMAIN ks : b # a /\ ks[b] = ks[a]
(* observations change nothing and agree with one another *)
ObserveLaw == (hist # <<>> /\ Last.kind = "obs") => LET E == objs[Last.r] IN
  /\ Last.c.op = "len" => Last.val = <<Len(E)>>
  /\ Last.c.op \in {"iter", "str"} => (Len(Last.res) = Len(E) /\ \A i \in DOMAIN E : Last.res[i] = Fin(E[i], 0))
  /\ (Last.c.op = "index" /\ Last.err = "") => Last.res[1] \in {Fin(E[i], 0) : i \in DOMAIN E}

(* one line per complete behaviour; the leading H keeps the harness' generic parser from decoding (and keeping) every line: the driver streams them *)
Emit == (n = MaxOps) => PrintT("H" \o ToJson([start |-> Start, steps |-> hist]))
=============================================================================
