\* C20 generator / oracle run.  The driver rewrites the CONSTANTS lines per chunk (harness/drivers/c20.py).
SPECIFICATION Spec
CONSTANTS
  MaxLen = 3
  MaxMult = 4
  Degrees = {1, 2, 3, 4, 5}
  Multi = "few"
  Pairs = "wide"
INVARIANT Emit
INVARIANT PolynomialIdentity
INVARIANT KeysIdentify
INVARIANT FormsAgree
INVARIANT Lengths
CHECK_DEADLOCK FALSE
