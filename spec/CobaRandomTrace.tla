--------------------------- MODULE CobaRandomTrace ---------------------------
(***************************************************************************)
(* Trace validation for CobaRandom.tla with the REAL constants.            *)
(* IOEnv.TRACE_FILE: JSON array of [ev |-> <<event>>]; an event is one     *)
(* call on one generator instance (0 = the module-level generator behind   *)
(* coba.random.seed / coba.random.<method>) recorded from the real code:   *)
(*   new      i, kind "int" (hi,lo limbs of seed mod 2^30) | "bytes" (bs)  *)
(*   random   i, ret = <<hi,lo>> limbs of u*2^30 (exact in a float)        *)
(*   randoms  i, n, ret = sequence of limbs                                *)
(*   uniforms i, n, lo, hi (bounds in units of 1/Q), ret = limbs of the   *)
(*            normalised values (x-min)/(max-min)*2^30, cell = floor(Q*x)  *)
(*   randint  i, a, b, ret        randints i, n, a, b, ret                 *)
(*   shuffle  i, n, ret = the permutation of 0..n-1                        *)
(*   choice   i, n, ret           choicew i, w (int weights), sq, rm, rw   *)
(*   gauss    i, k = number of values drawn (all finite, checked by the    *)
(*            driver); the spec accounts for the uniforms they consume     *)
(* Every returned value must equal the specification's, and the generator  *)
(* must be exactly where its own calls put it.                             *)
(***************************************************************************)
EXTENDS CobaRandom, Json, IOUtils, TLCExt
trInst == 0..5
Traces == JsonDeserialize(IOEnv.TRACE_FILE)
VARIABLES tid, l
tvars == <<vars, tid, l>>
Evs == Traces[tid].ev
Ev  == Evs[l]
Limbs(x) == x[1] * B + x[2]
S(i) == inst[i].s
TraceInit == tid \in 1..Len(Traces) /\ l = 1 /\ Init

TrEvent == LET i == Ev.i IN
  \/ Ev.op = "new" /\ Ev.kind = "int"   /\ New(i, Limbs(Ev.seed))
  \/ Ev.op = "new" /\ Ev.kind = "bytes" /\ New(i, SeedOfBytes(Ev.bs))
  \/ Ev.op = "random"  /\ inst[i].live /\ Limbs(Ev.ret) = Step(S(i)) /\ Adv(i, 1)
  \/ Ev.op = "randoms" /\ inst[i].live /\ Ev.n = Len(Ev.ret) /\ (\A k \in 1..Ev.n : Limbs(Ev.ret[k]) = StepN(S(i), k)) /\ Adv(i, Ev.n)
  \/ Ev.op = "uniforms" /\ inst[i].live /\ Ev.n = Len(Ev.ret) /\ Ev.n = Len(Ev.cell) /\ Adv(i, Ev.n)
     /\ \A k \in 1..Ev.n : LET s2 == StepN(S(i), k) IN
           Limbs(Ev.ret[k]) = s2 /\ Ev.cell[k] = UniformCell(s2, Ev.lo, Ev.hi) /\ Ev.cell[k] >= Ev.lo /\ Ev.cell[k] < Ev.hi
  \/ Ev.op = "randint" /\ inst[i].live /\ Ev.ret = RandInt(S(i), Ev.a, Ev.b) /\ Ev.ret >= Ev.a /\ Ev.ret <= Ev.b /\ Adv(i, 1)
  \/ Ev.op = "randints" /\ inst[i].live /\ Ev.ret = RandInts(S(i), Ev.n, Ev.a, Ev.b) /\ Adv(i, Ev.n)
  \/ Ev.op = "shuffle" /\ inst[i].live /\ Ev.ret = Shuffle(S(i), Ev.n) /\ Adv(i, ShuffleDraws(Ev.n))
  \/ Ev.op = "choice"  /\ inst[i].live /\ Ev.ret = ChoiceU(S(i), Ev.n) /\ Adv(i, 1)
  \* sq = the members offered (ids; the SAME member may be listed twice with different weights), rm = the member returned,
  \* rw = the weight returned with it (-1: choice(seq, weights) returns the member only).  The drawn POSITION k decides both.
  \/ Ev.op = "choicew" /\ inst[i].live /\ Adv(i, 1)
     /\ LET k == ChoiceW(S(i), Ev.w) IN Ev.sq[k + 1] = Ev.rm /\ Ev.w[k + 1] > 0 /\ Ev.rw \in {-1, Ev.w[k + 1]}
  \/ Ev.op = "gauss"   /\ inst[i].live /\ Ev.k = 1 /\ Gauss(i)        \* the contract: defined in every state (the driver reports a raise / non-finite value)
TraceNext == l <= Len(Evs) /\ TrEvent /\ l' = l + 1 /\ UNCHANGED tid
TraceSpec == TraceInit /\ [][TraceNext]_tvars
AtEnd  == l = Len(Evs) + 1
Accept == AtEnd => PrintT(ToJson([acc |-> tid]))
Diag   == PrintT(ToJson([tid |-> tid, l |-> l]))
=============================================================================
