------------------------------- MODULE Learners -------------------------------
(***************************************************************************)
(* Property C16: the built-in learners that need no optional package        *)
(* always return a valid, self-consistent distribution.                     *)
(*                                                                         *)
(* One learner object as a state machine, one action per public call:      *)
(*   Predict(acts)   learner.predict(context, actions)                     *)
(*   (score)         learner.score(context, actions, a) for every a: the   *)
(*                   same policy, no state change (folded into Predict's   *)
(*                   observation for the PMFPredictor learners; a separate *)
(*                   action CorralScore for Corral, whose score draws from *)
(*                   its base learners)                                    *)
(*   Learn(a, r)     learner.learn(context, action, reward, probability)   *)
(*                                                                         *)
(* coba/learners/bandit.py     BanditEpsilonLearner 18-60, BanditUCBLearner*)
(*                             62-156, FixedLearner 158-187,               *)
(*                             RandomLearner 189-211                       *)
(* coba/learners/utilities.py  PMFPredictor 6-25 (score 22, predict 25): the action is drawn with *)
(*                             CobaRandom.choicew(actions, pmf) and the    *)
(*                             reported probability is pmf[index]          *)
(* coba/learners/misguided.py  MisguidedLearner 3-35 (learn 34-35): the wrapped learner  *)
(*                             with reward shifter + scaler*reward         *)
(* coba/learners/corral.py     CorralLearner 10-172 (_pmf 66-71, learn      *)
(*                             79-113, _log_barrier_omd 115-172)           *)
(* coba/random.py              the generator: EXTENDS CobaRandom (C05)     *)
(*                                                                         *)
(* What is EXACT (rationals; the action is the exact function of the seed  *)
(* and the history given by CobaRandom!ChoiceU / ChoiceW):                 *)
(*   Random, Fixed, epsilon-greedy, UCB while an offered action has never  *)
(*   been observed, Misguided over those.                                  *)
(* What is STRUCTURAL (transcendental / root search, DESIGN.md section 1): *)
(*   UCB once every offered action was observed: uniform over a non-empty  *)
(*   subset of the offered actions; Corral: weights strictly positive and  *)
(*   summing to 1 within 1e-4, p_bar = (1-1/T) p + 1/(T M), the reported   *)
(*   probability of an action = the p_bar mass of the base learners that   *)
(*   chose it, learn never raises / hangs.                                 *)
(*                                                                         *)
(* Numbers.  Rewards are r2/2 with r2 an integer; a Misguided wrapper      *)
(* (shn/md, scn/md) turns it into RT/(2 md).  Probabilities are <<num,den>>*)
(* pairs.  Floats never enter: the driver converts a float to the nearest  *)
(* small rational (|x - n/d| <= 1e-12, else it sends <<-1,1>> which no     *)
(* policy contains) or, for Corral, to [sg |-> sign, v |-> round(x * 1e9)].*)
(***************************************************************************)
EXTENDS CobaRandom
CONSTANTS MaxAct                   \* abstract actions are 1..MaxAct (the driver maps them to hashable / dense / sparse objects)

Acts == 1..MaxAct
Max2(a, b) == IF a >= b THEN a ELSE b
Abs(x) == IF x < 0 THEN -x ELSE x
SeqSum(w) == Cum(w, Len(w))
MinOf(S) == CHOOSE x \in S : \A y \in S : x <= y

(***************************************************************************)
(* Configuration of a learner (a record, constant during a behaviour):     *)
(*  k     "random" | "fixed" | "eps" | "ucb" | "corral"                    *)
(*  seed  the seed given to the learner                                    *)
(*  en/ed epsilon                      (eps)                               *)
(*  w/wd  the fixed pmf w[i]/wd        (fixed)                             *)
(*  mis, shn, scn, md   wrapped in MisguidedLearner(shn/md, scn/md) or not *)
(*  M, bases, T (0 = inf), mode, etan/etad    (corral)                     *)
(*  a base is [k |-> "fixed" | "random" | "opaque", w, wd, seed]; "opaque" *)
(*  = any other built-in learner (its choice is only required to be an     *)
(*  offered action)                                                        *)
(***************************************************************************)

(***************************************************************************)
(* State of the epsilon-greedy / UCB learners.                              *)
(*  n[a]    number of learn calls for action a  (_N bandit.py:60 / _s 117-123)*)
(*  s[a]    sum of the (transformed) rewards of a in units of 1/(2 md):     *)
(*          the running mean _Q[a] (bandit.py:57-59) is s[a]/(n[a]*2md)     *)
(*  firm[a] the float _Q[a] is EXACTLY that mean (see LearnSt): an exact    *)
(*          tie between firm values is a tie in the code as well; a tie     *)
(*          that involves a rounded value may be broken either way          *)
(***************************************************************************)
St0 == [n |-> [a \in Acts |-> 0], s |-> [a \in Acts |-> 0], firm |-> [a \in Acts |-> TRUE], t |-> 0]

Unit(c) == 2 * c.md
RT(c, r2) == 2 * c.shn + c.scn * r2                       \* misguided.py:35  shifter + scaler*reward, numerator over 2 md

(* value(a) <= value(b); a never-observed action has value 0 (bandit.py:30 defaultdict(int), 40-41) *)
VLeq(st, a, b) == st.s[a] * Max2(st.n[b], 1) <= st.s[b] * Max2(st.n[a], 1)
BestIdx(st, acts) == {i \in DOMAIN acts : \A j \in DOMAIN acts : VLeq(st, acts[j], acts[i])}            \* bandit.py:41-42
(* the sets of positions among which the greedy mass may be shared *)
EpsGroups(st, acts) == LET Bst == BestIdx(st, acts) IN
                       IF \A i \in Bst : st.firm[acts[i]] THEN {Bst} ELSE (SUBSET Bst) \ {{}}
(* UCB (bandit.py:90-102): the never-observed offered actions if any, else the maximisers of a transcendental index *)
UcbGroups(st, acts) == LET U == {i \in DOMAIN acts : st.n[acts[i]] = 0} IN
                       IF U # {} THEN {U} ELSE (SUBSET (DOMAIN acts)) \ {{}}

(* integer weights over a common denominator *)
EpsW(c, n, G) == [i \in 1..n |-> c.en * Cardinality(G) + (IF i \in G THEN (c.ed - c.en) * n ELSE 0)]     \* bandit.py:44-47
UniW(n, G) == [i \in 1..n |-> IF i \in G THEN 1 ELSE 0]                                                  \* bandit.py:102

(* FixedLearner returns its pmf whatever is offered (bandit.py:177-178): it is defined for action sets of that size *)
Defined(c, acts) == Len(acts) >= 1 /\ (c.k = "fixed" => Len(c.w) = Len(acts))

(* the policies the learner may have in this state: [w, d] = probabilities w[i]/d *)
Policies(c, st, acts) == LET n == Len(acts) IN
  CASE c.k = "random" -> {[w |-> [i \in 1..n |-> 1], d |-> n]}                                           \* bandit.py:204-208
    [] c.k = "fixed"  -> {[w |-> c.w, d |-> c.wd]}
    [] c.k = "eps"    -> {[w |-> EpsW(c, n, G), d |-> c.ed * n * Cardinality(G)] : G \in EpsGroups(st, acts)}
    [] c.k = "ucb"    -> {[w |-> UniW(n, G), d |-> Cardinality(G)] : G \in UcbGroups(st, acts)}

(***************************************************************************)
(* The action drawn (1-based position in acts) from generator state s.     *)
(* random.py choice 145-165 / choicew 167-183.  With weights the code      *)
(* compares u*tot <= cum_i in floats; the weights are rationals whose      *)
(* floats are rounded, so exactly at u*tot = cum_i (which needs cum_i/tot  *)
(* dyadic) the float comparison may go either way: both positions are      *)
(* accepted there and only there (everywhere else the two sides differ by  *)
(* at least 2^-30/den, far above rounding).                                *)
(***************************************************************************)
ExactEq(s2, tot, cum) == LET s1 == s2 \div B  s0 == s2 % B  q == s1 * tot + (s0 * tot) \div B  r == (s0 * tot) % B
                         IN q = cum * B /\ r = 0
PickW(s, w) == LET i0 == ChoiceW(s, w) + 1
                   s2 == Step(s)
                   later == {j \in (i0 + 1)..Len(w) : w[j] > 0}
               IN IF s2 # 0 /\ later # {} /\ ExactEq(s2, SeqSum(w), Cum(w, i0)) THEN {i0, MinOf(later)} ELSE {i0}
Pick(c, s, pol) == IF c.k = "random" THEN {ChoiceU(s, Len(pol.w)) + 1} ELSE PickW(s, pol.w)

(* what predict / score must show: some policy of the state, every score(a) = pmf[a], the returned action one of idx
   and the returned probability pmf[returned] *)
Outcomes(c, st, s, acts) == {[pmf |-> [i \in DOMAIN p.w |-> <<p.w[i], p.d>>], idx |-> Pick(c, s, p)] : p \in Policies(c, st, acts)}

(***************************************************************************)
(* learn.  Random / Fixed: nothing (bandit.py:186-187, 210-211).           *)
(* eps (55-60): alpha = 1/(N+1); Q = (1-alpha) Q + alpha r; N += 1, i.e.   *)
(* the mean.  UCB (110-124) keeps its own statistics; which actions were   *)
(* observed is all the exact part of its policy needs.                     *)
(* firm: the float is exact after the first observation (alpha = 1), when  *)
(* N+1 is a power of two (alpha and 1-alpha exact, dyadic operands), and   *)
(* when the old mean and the reward are the same 0 / +-2^j (c*(fl(1-alpha) *)
(* + alpha) rounds to c).  Otherwise the value carries a rounding error.   *)
(***************************************************************************)
Pow2s == {1, 2, 4, 8, 16, 32, 64, 128, 256, 512, 1024}
IsPow2Val(rt, u) == rt = 0 \/ \E j \in Pow2s : Abs(rt) = u * j \/ Abs(rt) * j = u
LearnSt(c, st, a, r2) ==
  IF c.k \in {"random", "fixed"} THEN st
  ELSE LET rt == RT(c, r2)
           n  == st.n[a]
           f  == \/ n = 0
                 \/ st.firm[a] /\ (n + 1) \in Pow2s
                 \/ st.firm[a] /\ st.s[a] = rt * n /\ IsPow2Val(rt, Unit(c))
       IN [n |-> [st.n EXCEPT ![a] = n + 1], s |-> [st.s EXCEPT ![a] = @ + rt], firm |-> [st.firm EXCEPT ![a] = f], t |-> st.t + 1]

(***************************************************************************)
(* Corral (structural).  Floats arrive as [sg, v]: sg = sign (1, 0, -1; 2  *)
(* for nan / inf), v = round(|x| * SC).                                    *)
(***************************************************************************)
SC  == 1000000000                 \* 1e9
TOL == 100000                     \* 1e-4: the accuracy of Corral's own root search (corral.py:126, 135, 170)
Pos(x) == x.sg = 1
RECURSIVE SumV(_, _)
SumV(xs, I) == IF I = {} THEN 0 ELSE LET i == CHOOSE j \in I : TRUE IN xs[i].v + SumV(xs, I \ {i})
IsDist(xs) == /\ \A i \in DOMAIN xs : Pos(xs[i])
              /\ Abs(SumV(xs, DOMAIN xs) - SC) <= TOL + Len(xs)
(* corral.py:108  p_bar = (1-gamma) p + gamma/M, gamma = 1/T; in units of 1e-6 so that the products fit 32 bits (T M <= 2000) *)
MixOK(T, M, p, pb) == IF T = 0 THEN Abs(pb.v - p.v) <= 1
                      ELSE Abs((pb.v \div 1000) * T * M - ((T - 1) * M * (p.v \div 1000) + 1000000)) <= 2 * T * M + 2
(* design fact (checked by TLC on a grid, MC_Learners!MixKeepsDist): mixing a distribution with the uniform one keeps it a distribution *)

VARIABLES lrn,      \* the configuration
          stat,     \* eps / ucb statistics
          cw        \* Corral: [ps, pb] as last observed (sequences of [sg, v])
lvars == <<lrn, stat, cw, inst>>

(* ---- the PMFPredictor learners and RandomLearner: generator instance 0 ---- *)
(* what predict(acts), and score(acts, a) for every a, must show in the current state *)
PredictObs(acts) == Outcomes(lrn, stat, inst[0].s, acts)
Predict(acts) == /\ lrn.k # "corral" /\ Defined(lrn, acts)
                 /\ Adv(0, 1)                                   \* exactly one uniform per predict (utilities.py:25, bandit.py:208)
                 /\ UNCHANGED <<lrn, stat, cw>>                 \* predict (and score) learn nothing
Learn(a, r2) == /\ lrn.k # "corral"
                /\ stat' = LearnSt(lrn, stat, a, r2)
                /\ UNCHANGED <<lrn, cw, inst>>                  \* learn draws nothing

(* ---- Corral: base learner i draws from generator instance i ---- *)
Tracked(b) == b.k \in {"fixed", "random"}
BasePol(b, acts) == IF b.k = "random" THEN [w |-> [i \in DOMAIN acts |-> 1], d |-> Len(acts)] ELSE [w |-> b.w, d |-> b.wd]
BasePick(i, acts) == LET b == lrn.bases[i] IN IF Tracked(b) THEN Pick(b, inst[i].s, BasePol(b, acts)) ELSE DOMAIN acts
AdvBases == inst' = [i \in Inst |-> IF i \in DOMAIN lrn.bases /\ Tracked(lrn.bases[i]) THEN [inst[i] EXCEPT !.s = Step(@)] ELSE inst[i]]
Mass(I) == SumV(cw.pb, I)
(* predict (corral.py:66-71, 76-77): every base predicts once; pmf[a] = sum of p_bar over the bases that chose a (69); the action
   is drawn from that pmf with Corral's own generator: it has positive mass and p is its mass *)
CorralPredict(acts, bacts, ret, p) ==
    /\ lrn.k = "corral" /\ Len(acts) >= 1
    /\ Len(bacts) = lrn.M /\ \A i \in 1..lrn.M : bacts[i] \in BasePick(i, acts)       \* a base returns an offered action (the exact one for Fixed / Random)
    /\ ret \in DOMAIN acts
    /\ {i \in 1..lrn.M : bacts[i] = ret} # {}
    /\ Pos(p) /\ Abs(p.v - Mass({i \in 1..lrn.M : bacts[i] = ret})) <= lrn.M
    /\ AdvBases /\ UNCHANGED <<lrn, stat, cw>>
(* score (corral.py:73-74, utilities.py:43): the bases predict again; the value is the p_bar mass of those that now choose a *)
CorralScore(acts, a, val) ==
    /\ lrn.k = "corral" /\ a \in DOMAIN acts
    /\ LET May == {i \in 1..lrn.M : a \in BasePick(i, acts)}
           Must == {i \in 1..lrn.M : BasePick(i, acts) = {a}}
       IN \E Z \in SUBSET May : /\ Must \subseteq Z
                                /\ Abs(val.v - Mass(Z)) <= lrn.M
                                /\ val.sg = (IF Z = {} THEN 0 ELSE 1)
    /\ AdvBases /\ UNCHANGED <<lrn, stat, cw>>
(* learn (corral.py:79-113): never raises, never hangs (res = "ok"); afterwards both weight vectors are strictly positive
   distributions to 1e-4 and p_bar is the gamma-mixture of p.  Nothing is drawn. *)
CorralLearn(res, nps, npb) ==
    /\ lrn.k = "corral" /\ res = "ok"
    /\ Len(nps) = lrn.M /\ Len(npb) = lrn.M
    /\ IsDist(nps) /\ IsDist(npb)
    /\ \A i \in 1..lrn.M : MixOK(lrn.T, lrn.M, nps[i], npb[i])
    /\ cw' = [ps |-> nps, pb |-> npb]
    /\ UNCHANGED <<lrn, stat, inst>>
(* Corral's weights in every state *)
CorralInv == lrn.k = "corral" => IsDist(cw.ps) /\ IsDist(cw.pb)
=============================================================================
