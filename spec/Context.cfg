SPECIFICATION Spec
CONSTANTS
  Conf = "merge"
  NDirs = 2
  DefaultPaths <- MC_DefaultPaths
  MaxSteps = 1
  Variant = "ok"
  Big = FALSE
  InitContents <- MC_InitContents
  InitPaths <- MC_InitPaths
  InitFilter <- MC_InitFilter
  Alphabet <- MC_Alphabet
  WriteContents <- MC_WriteContents
  PathChoices <- MC_PathChoices
  ApiVals <- MC_ApiVals
  CacherVals <- MC_CacherVals
  LoggerVals <- MC_LoggerVals
  ExpSets <- MC_ExpSets
  KeyPuts <- MC_KeyPuts
  CfgArgs <- MC_CfgArgs
  RunArgs <- MC_RunArgs
  FilterArgs <- MC_FilterArgs
INVARIANT Lazy
INVARIANT OneLoad
INVARIANT PrecedencePerKey
INVARIANT NoLoadFromBadFiles
INVARIANT ReadsMatchView
INVARIANT FailureReported
INVARIANT ProgrammaticWins
INVARIANT AuxLazy
INVARIANT PathsResolved
INVARIANT WorkersSeeParent
INVARIANT ParentUnchanged
INVARIANT RunPrecedence
INVARIANT Emit
PROPERTY CacheStable
PROPERTY SlotIndependence
CHECK_DEADLOCK FALSE
