---------------------------- MODULE MC_Supervised ----------------------------
(* model constants for Supervised.tla (C14): which sources, takes, row shapes and X containers are enumerated *)
EXTENDS Supervised
AllSrcs    == {"xy", "rows", "rowsH", "sparse", "csv", "csvH", "arff", "arffS", "libsvm", "manik"}
ObjSrcs    == {"xy", "rows", "rowsH", "sparse"}
TextSrcs   == {"csv", "csvH", "arff", "arffS", "libsvm", "manik"}
TakesQuick == {-1, 0, 2}
TakesFull  == {-1, 0, 1, 2, 3, 5}
TakesSome  == {-1, 1, 3}
TakesTwo   == {-1, 3}
TakesRest  == {0, 2, 5}
(* <<number of feature columns, position of the label column>> *)
ShapesQuick == {<<1, 0>>, <<2, 1>>, <<2, 2>>}
ShapesFull  == {<<0, 0>>, <<1, 0>>, <<1, 1>>, <<2, 0>>, <<2, 1>>, <<2, 2>>}
ShapesOne   == {<<1, 0>>, <<2, 1>>}
XKsAll   == {"scalar", "tuple", "dict", "none", "str"}
XKsQuick == {"scalar", "tuple", "dict"}
(* feature values of dense examples: all distinct, or drawn from the label alphabet (a feature may equal the label) *)
FeatValsAll == {"distinct", "label"}
FeatValsOld == {"distinct"}
(* the reads performed on one simulation object: first, second, one abandoned after the first interaction, one after that *)
PlanAll == <<"full", "full", "abandon", "full">>
=============================================================================
