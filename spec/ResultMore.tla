------------------------------ MODULE ResultMore ------------------------------
(***************************************************************************)
(* X13 - what coba.results.core.Result / Table must return BEYOND C18      *)
(* (ResultFin.tla: where_fin, where, where_best inside chains,             *)
(* raw_learners, moving_average).  This module EXTENDS ResultFin and uses  *)
(* its abstract Result (parameter functions `par` with duplicated values,  *)
(* evaluations <<e,l,v>> |-> number of rows, rewards Yv(t,i,salt),         *)
(* `tab` = ids the parameter tables hold, `full` = every parameter row is  *)
(* referenced) and its operators (Pair, Score, MovAvg, Tup, Ref ...).      *)
(*                                                                         *)
(* XMode = "hist": a WORKSPACE of Result objects.  objs[1] is the Result   *)
(* under test (built by the driver through the constructor or through a    *)
(* transaction log); every call takes one object of the workspace as its   *)
(* receiver and adds the Result it returns as a new object.  Objects are   *)
(* VALUES: no call changes an object that already exists (CopyIndep), the  *)
(* only mutation is `obj.experiment = x` on one object (XSetExp).         *)
(* One action per public call (core.py line ranges of /repo HEAD):         *)
(*   XCopy      Result.copy()                                  1027-1040  *)
(*   XSetExp    obj.experiment = x   (attribute re-binding)     966, 1034 *)
(*   XLoad      Result.from_save / from_file / from_source of a log that  *)
(*               holds objs[1]'s content                   828-849, 504-623 *)
(*   XFPar      filter_env / filter_lrn / filter_val with a keyword       *)
(*               condition, a callable keyword value, two keywords (OR) or *)
(*               a row predicate; Result.where(col=..) is the same call    *)
(*                                                   1117-1194, 1277-1322  *)
(*   XFInt      filter_int / where on an interaction column   1196-1224   *)
(*   XBest      filter_best / where_best standing alone, ties included    *)
(*                                                   1042-1096, 1226-1258  *)
(*   XContrast  raw_contrast(l1,l2,x,y,l,p,span)  (an observation)        *)
(*                                                             1370-1451   *)
(*   XEq        objs[i] == objs[j]  (an observation)          1745-1749   *)
(* XMode = "logged": Result.from_logged_envs as a decision table 852-935.  *)
(* XMode = "table" : Table.to_dicts / __getitem__ / groupby / copy on an   *)
(*                   indexed table and on a view of it, against the naive  *)
(*                   definitions (353-404).                                *)
(*                                                                         *)
(* Variant = "none" is the specification.  The other values are            *)
(* deliberately broken designs that TLC must reject (the driver fails the  *)
(* run as vacuous if one of them passes):                                  *)
(*   "copy_shared"         a copy shares its attributes with its source    *)
(*   "int_count_trim"      filter_int trims a parameter table only when    *)
(*                         #remaining evaluations # #rows (pre a303457)    *)
(*   "contrast_incomplete" raw_contrast also reports pairing groups that   *)
(*                         hold only the first level                       *)
(*   "best_all_ties"       where_best keeps every tied learner             *)
(*   "logged_pos_ids"      from_logged_envs numbers by position            *)
(*                                                                         *)
(* Numbers as in ResultFin: rationals <<num, den>>, span 0 = None,         *)
(* nb 0 = None.                                                            *)
(***************************************************************************)
EXTENDS ResultFin

CONSTANTS XMode,      \* "hist" | "logged" | "table"
          Variant,
          XOps,       \* subset of {"copy","setexp","load","fpar","fint","best","contrast","eq"}
          RecvAll,    \* TRUE: any object of the workspace may be the receiver; FALSE: the newest one (a chain)
          InitExps,   \* the experiment dict of objs[1] (abstract: 0 = {}, k > 0 = a description)
          SetExps,    \* values XSetExp assigns
          EnvConds, LrnConds, ValConds,   \* conditions on a parameter table: a sequence of atoms (OR); see Sat
          IntConds,                       \* conditions on the interactions table: one atom
          CtrArgs,    \* <<A, B, x, l, p, span>>: A, B = sets of levels (tuples of values of the l columns)
          BestXArgs,  \* <<l, p, nb>> (p = <<>>: not given)
          LgMax, LgE, LgL, LgV, LgLens,   \* logged mode: <= LgMax environments over these parameter alphabets
          TbMax, TbVals, TbIdx, TbWheres  \* table mode
VARIABLES objs,       \* the workspace: sequence of objects
          exp0,       \* the experiment dict objs[1] was built with (what a log of it holds)
          lg,         \* logged mode: the input
          tb          \* table mode: the input
xvars == <<par, salt, ev, tab, full, hist, n, ma, objs, exp0, lg, tb>>

Obj(evf, tb_, fl, x, fr, s) == [ev |-> evf, tab |-> tb_, full |-> fl, exp |-> x,
                                fresh |-> fr,     \* made by the constructor / a log / copy(): certainly a distinct Python object
                                src |-> s,        \* copy(): the object it was copied from (0 otherwise)
                                twin |-> FALSE]   \* made by a filter that removed no evaluation: possibly the receiver itself
ObjOut(o) == [ev |-> EvSet(o.ev), tmin |-> Ref(o.ev), tmax |-> o.tab, full |-> o.full, exp |-> o.exp]
NoOut == [kind |-> "none"]
Recv == IF RecvAll THEN 1..Len(objs) ELSE {Len(objs)}

(* ------------------------------------------------------------ conditions *)
(* An atom is <<kind, column, operator, set of values>>:                    *)
(*   kind "kw"   filter_X(column = v | [v..] | {operator: v})              *)
(*   kind "call" filter_X(column = callable)   the callable tests the cell *)
(*   kind "pred" filter_X(pred)                the predicate tests the row *)
(* The meaning is the same for the three kinds: the row is kept iff its    *)
(* value in the column satisfies the operator.  A condition on a parameter *)
(* table is a sequence of one or two atoms: "Including multiple kwargs in  *)
(* a single where applies an or" (docstring 1291).                         *)
SatV(a, v) == CASE a[3] \in {"eq", "in"}  -> v \in a[4]
                [] a[3] \in {"ne", "nin"} -> v \notin a[4]
                [] a[3] = "le" -> \A k \in a[4] : v <= k
                [] a[3] = "lt" -> \A k \in a[4] : v < k
                [] a[3] = "ge" -> \A k \in a[4] : v >= k
                [] a[3] = "gt" -> \A k \in a[4] : v > k
KindOf(col) == IF col \in {"environment_id", "ea", "eb"} THEN 1 ELSE IF col \in {"learner_id", "la", "lb"} THEN 2 ELSE 3
PVal(col, id) == CASE col \in {"environment_id", "learner_id", "evaluator_id"} -> id
                   [] col = "ea" -> par.ea[id] [] col = "eb" -> par.eb[id]
                   [] col = "la" -> par.la[id] [] col = "lb" -> par.lb[id]
                   [] col = "va" -> par.va[id]
SatRow(cond, id) == \E j \in DOMAIN cond : SatV(cond[j], PVal(cond[j][2], id))

(* filter_env / filter_lrn / filter_val (1117-1194): the rows of the filtered table that satisfy   *)
(* the condition; the evaluations of the kept ids; the two other parameter tables trimmed to what  *)
(* the remaining interaction rows reference.  Nothing removed: the same Result.  `experiment` is   *)
(* the receiver's.  Tables: every referenced id has its row (always); exactly the referenced ids   *)
(* when that held of the receiver (full); otherwise the filtered table holds at most the           *)
(* satisfying rows and the others at most what they held.                                          *)
FPar(R, cond) ==
  LET k == KindOf(cond[1][2])
      keep == {id \in R.tab[k] : SatRow(cond, id)}
  IN IF keep = R.tab[k] THEN [R EXCEPT !.fresh = FALSE, !.src = 0, !.twin = TRUE]
     ELSE LET a == Restrict(R.ev, {t \in DOMAIN R.ev : t[k] \in keep})
              up == [j \in 1..3 |-> IF j = k THEN keep ELSE R.tab[j]]
          IN [Obj(a, IF R.full THEN Ref(a) ELSE up, R.full, R.exp, FALSE, 0) EXCEPT !.twin = (a = R.ev)]

(* filter_int / where(<interaction column>) (1196-1224): exactly the interaction rows that satisfy *)
(* the atom; parameter rows that lose every interaction row leave their tables (a303457).          *)
RowValX(col, t, i) == CASE col = "index" -> i [] col = "reward" -> Yv(t, i, salt)
                        [] col = "environment_id" -> t[1] [] col = "learner_id" -> t[2] [] col = "evaluator_id" -> t[3]
KeptIdx(R, a, t) == {i \in 1..R.ev[t] : SatV(a, RowValX(a[2], t, i))}
FIntRows(R, a) == UNION {{<<t[1], t[2], t[3], i>> : i \in KeptIdx(R, a, t)} : t \in DOMAIN R.ev}
FIntKept(R, a) == {t \in DOMAIN R.ev : KeptIdx(R, a, t) # {}}
FIntPrefix(R, a) == \A t \in FIntKept(R, a) : KeptIdx(R, a, t) = 1..Cardinality(KeptIdx(R, a, t))
FIntTab(R, a, evf) ==
  IF Variant = "int_count_trim"
  THEN [j \in 1..3 |-> IF Cardinality(DOMAIN evf) # Cardinality(R.tab[j]) THEN Ref(evf)[j] ELSE R.tab[j]]
  ELSE IF R.full THEN Ref(evf) ELSE R.tab
FInt(R, a) ==
  LET kept == FIntKept(R, a)
      evf == [t \in kept |-> Cardinality(KeptIdx(R, a, t))]
  IN IF \A t \in DOMAIN R.ev : KeptIdx(R, a, t) = 1..R.ev[t] THEN [R EXCEPT !.fresh = FALSE, !.src = 0, !.twin = TRUE]
     ELSE Obj(evf, FIntTab(R, a, evf), R.full, R.exp, FALSE, 0)

(* ------------------------------------------------------------ where_best *)
(* filter_best (1042-1096), docstring 1233-1256: first filter_fin(l = learner_id, p =              *)
(* environment_id); then in every p-group, for every value of l, "pick the full_l with the best    *)
(* average performance": ONE learner - a maximum of Score (mean over the learner's evaluations in   *)
(* the cell of the mean of their first nb rewards) - and all of its evaluations in the cell.  Which *)
(* of several maxima is not said: every choice is an accepted result.  `fin` = FALSE gives the      *)
(* selection alone (used to state that selecting twice selects nothing new).                       *)
BestAltsX(evf, lc, pc0, nb, fin) ==
  LET pc == IF pc0 = <<>> THEN <<"environment_id">> ELSE pc0
      S1 == IF fin THEN Pair(DOMAIN evf, <<"learner_id">>, <<"environment_id">>) ELSE DOMAIN evf
      cellof(t) == <<Tup(pc, t), Tup(lc, t)>>
      cells == {cellof(t) : t \in S1}
      evs(c, d) == {u \in S1 : cellof(u) = c /\ u[2] = d}
      cands(c) == {u[2] : u \in {w \in S1 : cellof(w) = c}}
      best(c) == {d \in cands(c) : \A d2 \in cands(c) : ~RLess(Score(evf, evs(c, d), nb), Score(evf, evs(c, d2), nb))}
      RECURSIVE Choices(_)
      Choices(C) == IF C = {} THEN {{}} ELSE
                    LET c == CHOOSE z \in C : TRUE
                    IN UNION {{rest \cup {<<c, d>>} : d \in best(c)} : rest \in Choices(C \ {c})}
  IN IF Variant = "best_all_ties"
     THEN {Restrict(evf, {t \in S1 : t[2] \in best(cellof(t))})}
     ELSE {Restrict(evf, {t \in S1 : <<cellof(t), t[2]>> \in f}) : f \in Choices(cells)}

(* ---------------------------------------------------------- raw_contrast *)
(* raw_contrast(l1, l2, x, y, l, p, span) (1370-1451): "contrast l1 and l2 in terms of y"; p = "the *)
(* pairings to require across all l1 and l2".  A = the levels given as l1, B = those given as l2.   *)
(* An ENTRY is one pair of numbers <<y1, y2>>: y1 from an evaluation t1 of a level of A, y2 from an *)
(* evaluation t2 of a level of B, both of the SAME p-group (only complete pairs):                   *)
(*   x = 'index'          : for every index i both evaluations have, the moving averages (span) at  *)
(*                          i, reported at x = i;                                                   *)
(*   x = parameter columns: the final averages (span None: mean of all rewards, k: of the last k),  *)
(*                          reported at x = the common x value, or "x2-x1" when the two differ.     *)
(* The table lists the x values in ascending order, each with the bag of its entries.  A label is   *)
(* <<u, w>>: w = <<>> for a plain x value u, otherwise the text "u-w" (u = x of t2, w = x of t1).   *)
(* Documented refusals (CobaException): a level in both l1 and l2; no data; no pair at all; l not  *)
(* a column.  A refusal leaves everything as it was (the process-wide logger included).             *)
(* Domain (CtrDefined): inside one level no two evaluations share p-group and x ("we are assuming   *)
(* at this point that only valid `l` are left", 1421); with x = 'index' one level on each side;     *)
(* the labels of one table are all plain or all composed.                                           *)
IsIdx(x) == x = <<"index">>
LevEv(evf, lc, Ls) == {t \in DOMAIN evf : Tup(lc, t) \in Ls}
CKey(t, x, pc) == IF IsIdx(x) THEN <<Tup(pc, t), <<>>>> ELSE <<Tup(pc, t), Tup(x, t)>>
FinalAvg(t, len, span) == MovAvg(YSeq(t, len), span, NoW)[len]
CtrEntries(evf, A, B, x, lc, pc, span) ==
  LET S1 == LevEv(evf, lc, A)
      S2 == LevEv(evf, lc, B)
      prs == {q \in S1 \X S2 : Tup(pc, q[1]) = Tup(pc, q[2])}
      lone == IF Variant = "contrast_incomplete" THEN {t \in S1 : \A u \in S2 : Tup(pc, u) # Tup(pc, t)} ELSE {}
  IN IF IsIdx(x)
     THEN UNION {LET m1 == MovAvg(YSeq(q[1], evf[q[1]]), span, NoW)
                     m2 == MovAvg(YSeq(q[2], evf[q[2]]), span, NoW)
                     k  == IF evf[q[1]] < evf[q[2]] THEN evf[q[1]] ELSE evf[q[2]]
                 IN {[lab |-> <<<<i>>, <<>>>>, t1 |-> q[1], t2 |-> q[2], y1 |-> m1[i], y2 |-> m2[i]] : i \in 1..k} : q \in prs}
          \cup UNION {{[lab |-> <<<<i>>, <<>>>>, t1 |-> t, t2 |-> t, y1 |-> MovAvg(YSeq(t, evf[t]), span, NoW)[i], y2 |-> <<0, 1>>] : i \in 1..evf[t]} : t \in lone}
     ELSE {[lab |-> (IF Tup(x, q[1]) = Tup(x, q[2]) THEN <<Tup(x, q[1]), <<>>>> ELSE <<Tup(x, q[2]), Tup(x, q[1])>>),
            t1 |-> q[1], t2 |-> q[2], y1 |-> FinalAvg(q[1], evf[q[1]], span), y2 |-> FinalAvg(q[2], evf[q[2]], span)] : q \in prs}
          \cup {[lab |-> <<Tup(x, t), <<>>>>, t1 |-> t, t2 |-> t, y1 |-> FinalAvg(t, evf[t], span), y2 |-> <<0, 1>>] : t \in lone}
AllCols == {"environment_id", "learner_id", "evaluator_id", "ea", "eb", "la", "lb", "va"}
BadCol(c) == \E i \in DOMAIN c[4] : c[4][i] \notin AllCols          \* l names no column of any table: where() refuses (1313)
CtrRefuses(evf, c) == IF BadCol(c) THEN TRUE ELSE (c[1] \cap c[2] # {} \/ DOMAIN evf = {} \/ CtrEntries(evf, c[1], c[2], c[3], c[4], c[5], c[6]) = {})
CtrDefined(evf, c) ==
  IF BadCol(c) THEN TRUE ELSE IF c[1] \cap c[2] # {} THEN TRUE ELSE
     /\ \A L \in c[1] \cup c[2] : \A t, u \in LevEv(evf, c[4], {L}) : t # u => CKey(t, c[3], c[5]) # CKey(u, c[3], c[5])
     /\ IsIdx(c[3]) => (Cardinality(c[1]) = 1 /\ Cardinality(c[2]) = 1)
     /\ \A e1, e2 \in CtrEntries(evf, c[1], c[2], c[3], c[4], c[5], c[6]) : (e1.lab[2] = <<>>) = (e2.lab[2] = <<>>)
RECURSIVE LexLess(_, _)
LexLess(s, t) == IF s = <<>> \/ t = <<>> THEN Len(s) < Len(t)
                 ELSE IF s[1] < t[1] THEN TRUE ELSE IF s[1] > t[1] THEN FALSE ELSE LexLess(Tail(s), Tail(t))
RECURSIVE SortLabs(_)
SortLabs(S) == IF S = {} THEN <<>> ELSE
   LET m == CHOOSE a \in S : \A b \in S : a = b \/ LexLess(a[1] \o a[2], b[1] \o b[2]) IN <<m>> \o SortLabs(S \ {m})
RSub(a, b) == <<a[1]*b[2] - b[1]*a[2], a[2]*b[2]>>
(* what plot_contrast makes of an entry: mode 'diff' = y2 - y1, mode 'prob' = [y2 > y1]; win / tie / loss counts of l2 against l1 *)
Wtl(es) == <<Cardinality({e \in es : RLess(e.y1, e.y2)}),
             Cardinality({e \in es : ~RLess(e.y1, e.y2) /\ ~RLess(e.y2, e.y1)}),
             Cardinality({e \in es : RLess(e.y2, e.y1)})>>
CtrOutOf(es) ==
  IF es = {} THEN [kind |-> "raise", rows |-> <<>>, wtl |-> <<0, 0, 0>>]
  ELSE LET labs == SortLabs({e.lab : e \in es})
       IN [kind |-> "rows",
           rows |-> [k \in DOMAIN labs |-> [lab |-> labs[k],
                                            pairs |-> {<<e.t1, e.t2, e.y1, e.y2, RSub(e.y2, e.y1)>> : e \in {f \in es : f.lab = labs[k]}}]],
           wtl |-> Wtl(es)]
CtrOut(evf, c) == IF CtrRefuses(evf, c) THEN CtrOutOf({}) ELSE CtrOutOf(CtrEntries(evf, c[1], c[2], c[3], c[4], c[5], c[6]))
(* [defined, out] with the entries computed once *)
CtrEval(evf, c) ==
  IF BadCol(c) \/ c[1] \cap c[2] # {} \/ DOMAIN evf = {} THEN [defined |-> TRUE, out |-> CtrOutOf({})] ELSE
  LET es == CtrEntries(evf, c[1], c[2], c[3], c[4], c[5], c[6])
      ok == /\ \A L \in c[1] \cup c[2] : \A t, u \in LevEv(evf, c[4], {L}) : t # u => CKey(t, c[3], c[5]) # CKey(u, c[3], c[5])
            /\ IsIdx(c[3]) => (Cardinality(c[1]) = 1 /\ Cardinality(c[2]) = 1)
            /\ \A e1, e2 \in es : (e1.lab[2] = <<>>) = (e2.lab[2] = <<>>)
  IN [defined |-> ok, out |-> IF ok THEN CtrOutOf(es) ELSE CtrOutOf({})]

(* ------------------------------------------------------------- equality *)
(* r1 == r2 (1745-1749, Table.__eq__ 406-407): two Results are equal iff their four tables hold the *)
(* same rows.  Stated only for objects whose tables are known exactly (full) and, so that nothing is *)
(* said about the role of `experiment`, only for pairs that do not differ in `experiment` alone.     *)
SameTables(o1, o2) == o1.ev = o2.ev /\ o1.tab = o2.tab
EqDefined(o1, o2) == o1.full /\ o2.full /\ (SameTables(o1, o2) => o1.exp = o2.exp)

(* ---------------------------------------------------------------- steps *)
XStep(op, recv, args, out, new, os) ==
  [op |-> op, recv |-> recv, args |-> args, out |-> out, new |-> new, exps |-> [i \in DOMAIN os |-> os[i].exp]]
Added(op, recv, args, out, o) ==
  /\ objs' = Append(objs, o)
  /\ hist' = Append(hist, XStep(op, recv, args, out, <<ObjOut(o)>>, objs'))
Observed(op, recv, args, out) ==
  /\ objs' = objs
  /\ hist' = Append(hist, XStep(op, recv, args, out, <<>>, objs))

XInitHist ==
  \E d \in Dims : \E p \in Pars : \E s \in Salts : \E tf \in TabFull : \E S \in Shapes(d) : \E lf \in Lens(S) : \E x \in InitExps :
    LET tb0 == IF tf THEN <<1..d[1], 1..d[2], 1..d[3]>> ELSE Ref(lf)
        rows == UNION {{<<t[1], t[2], t[3], i, Yv(t, i, s)>> : i \in 1..lf[t]} : t \in S}
        o == Obj(lf, tb0, tb0 = Ref(lf), x, TRUE, 0)
    IN /\ par = p /\ salt = s /\ ev = lf /\ tab = tb0 /\ full = (tb0 = Ref(lf)) /\ ma = NoMA /\ n = 0
       /\ objs = <<o>> /\ exp0 = x /\ lg = <<>> /\ tb = <<>>
       /\ hist = <<XStep("new", 0, <<p, rows>>, NoOut, <<ObjOut(o)>>, <<o>>)>>

XCopy == /\ "copy" \in XOps
          /\ \E s \in Recv : Added("copy", s, <<>>, NoOut, [objs[s] EXCEPT !.fresh = TRUE, !.src = s])
(* obj.experiment = x re-binds the attribute of ONE object.  A filter that removes nothing returns the receiver itself         *)
(* (test_filter_env_no_change) - no copy, two names of one object; so that nothing is said about such pairs the attribute is   *)
(* re-bound only on objects made by the constructor / a log / copy() and only while the workspace holds no possible twin.      *)
Alias(i, s) == Variant = "copy_shared" /\ (objs[i].src = s \/ objs[s].src = i)
XSetExp == /\ "setexp" \in XOps
            /\ \E s \in Recv : \E x \in SetExps :
                 /\ objs[s].fresh /\ objs[s].exp # x /\ \A i \in DOMAIN objs : ~objs[i].twin
                 /\ objs' = [i \in DOMAIN objs |-> IF i = s \/ Alias(i, s) THEN [objs[i] EXCEPT !.exp = x] ELSE objs[i]]
                 /\ hist' = Append(hist, XStep("setexp", s, <<x>>, NoOut, <<>>, objs'))
(* a log that holds what objs[1] was built from, read back: the same four tables and the same experiment dict *)
XLoad == /\ "load" \in XOps
          /\ Added("load", 1, <<>>, NoOut, Obj(ev, tab, full, exp0, TRUE, 0))
XFPar == /\ "fpar" \in XOps
          /\ \E s \in Recv : \E c \in EnvConds \cup LrnConds \cup ValConds :
               Added("fpar", s, c, NoOut, FPar(objs[s], c))
(* the rows kept need not be 1..k; then the Result is compared (rows, tables) but not kept in the workspace *)
XFInt == /\ "fint" \in XOps
          /\ \E s \in Recv : \E a \in IntConds :
               LET o == FInt(objs[s], a)
                   out == [kind |-> "rows", rows |-> FIntRows(objs[s], a), tmin |-> Ref(o.ev), tmax |-> o.tab, full |-> o.full, exp |-> o.exp]
               IN IF FIntPrefix(objs[s], a) THEN Added("fint", s, a, out, o) ELSE Observed("fint", s, a, out)
XBest == /\ "best" \in XOps
          /\ \E s \in Recv : \E b \in BestXArgs :
               LET R == objs[s]
                   alts == BestAltsX(R.ev, b[1], b[2], b[3], TRUE)
               IN \E a \in alts :
                    Added("best", s, b, [kind |-> "alts", alts |-> {EvSet(z) : z \in alts}],
                          Obj(a, IF R.full THEN Ref(a) ELSE R.tab, R.full, R.exp, FALSE, 0))
XContrast == /\ "contrast" \in XOps
              /\ \E s \in Recv : \E c \in CtrArgs :
                   LET r == CtrEval(objs[s].ev, c)
                   IN r.defined /\ Observed("contrast", s, c, r.out)
XEq == /\ "eq" \in XOps
        /\ \E i, j \in DOMAIN objs :
             /\ i < j /\ EqDefined(objs[i], objs[j])
             /\ Observed("eq", i, <<j>>, [kind |-> "bool", val |-> SameTables(objs[i], objs[j])])
(* "design" \in XOps: no call is made; the design facts below are evaluated on the Result, in the successor state (one per worker) *)
XDesign == "design" \in XOps /\ n = 0 /\ UNCHANGED <<objs, hist>>
DesignNow == XMode = "hist" /\ "design" \in XOps /\ n = 1
XNextHist == /\ n < MaxOps /\ n' = n + 1
             /\ (XDesign \/ XCopy \/ XSetExp \/ XLoad \/ XFPar \/ XFInt \/ XBest \/ XContrast \/ XEq)
             /\ UNCHANGED <<par, salt, ev, tab, full, ma, exp0, lg, tb>>

(* ------------------------------------------------------ from_logged_envs *)
(* Result.from_logged_envs(envs, include_prob) (852-935).  An environment that is not logged or has *)
(* no interactions contributes nothing.  Of the others: the parameters without 'learner' and        *)
(* 'evaluator' are the environment row, params['learner'] the learner row, params['evaluator'] (or  *)
(* {'eval_type': 'unknown'}) the evaluator row; EQUAL parameters are the same row; ids are 0, 1, .. *)
(* in the order of first appearance; one interaction row per logged interaction, index 1..len.      *)
(* Input: a sequence of [e, l, v, logged, len] (e, l, v abstract parameter values; v = 0: no        *)
(* 'evaluator' entry); the interaction i of the environment at position j has reward Yv(<<j,1,1>>,i,0). *)
LgDescs == [e : LgE, l : LgL, v : LgV, logged : BOOLEAN, len : LgLens]
KeptPos(s) == SelectSeq([i \in DOMAIN s |-> i], LAMBDA i : s[i].logged /\ s[i].len > 0)
FirstPos(q, k) == CHOOSE j \in 1..k : q[j] = q[k] /\ \A i \in 1..(j-1) : q[i] # q[k]
IdOf(q, k) == IF Variant = "logged_pos_ids" THEN k - 1 ELSE Cardinality({q[j] : j \in 1..FirstPos(q, k)}) - 1
LgOut(s) ==
  LET K == KeptPos(s)
      es == [k \in DOMAIN K |-> s[K[k]].e]
      ls == [k \in DOMAIN K |-> s[K[k]].l]
      vs == [k \in DOMAIN K |-> s[K[k]].v]
  IN [envs |-> {<<IdOf(es, k), es[k]>> : k \in DOMAIN K},
      lrns |-> {<<IdOf(ls, k), ls[k]>> : k \in DOMAIN K},
      vals |-> {<<IdOf(vs, k), vs[k]>> : k \in DOMAIN K},
      rows |-> UNION {{<<IdOf(es, k), IdOf(ls, k), IdOf(vs, k), i, Yv(<<K[k], 1, 1>>, i, 0)>> : i \in 1..s[K[k]].len} : k \in DOMAIN K}]
(* two logged environments with the same (environment, learner, evaluator) parameters would be one evaluation logged twice: outside the domain *)
LgDistinct(s) == \A i, j \in DOMAIN s : (i < j /\ s[i].logged /\ s[j].logged /\ s[i].len > 0 /\ s[j].len > 0)
                                          => <<s[i].e, s[i].l, s[i].v>> # <<s[j].e, s[j].l, s[j].v>>
XInitLogged == \E k \in 1..LgMax : \E s \in [1..k -> LgDescs] : \E ip \in BOOLEAN :
                 /\ LgDistinct(s)
                 /\ \A i \in DOMAIN s : ~s[i].logged => (s[i].len = 1 /\ s[i].v = 0)      \* what a skipped environment holds does not matter
                 /\ lg = [envs |-> s, prob |-> ip]
                 /\ par = <<>> /\ salt = 0 /\ ev = EmptyF /\ tab = <<{}, {}, {}>> /\ full = TRUE /\ hist = <<>> /\ n = 0 /\ ma = NoMA
                 /\ objs = <<>> /\ exp0 = 0 /\ tb = <<>>

(* ----------------------------------------------------------------- Table *)
(* A Table over the columns a, b, c indexed on the first nidx of them (index(): stable sort), and   *)
(* optionally a where(col = [values]) view of it.  to_dicts = one dict per row in table order;       *)
(* t[col] = the column; t[[cols]] / t[i:j] = the list of columns; groupby(level, select) = the       *)
(* naive group-by on the first `level` index columns, groups in ascending key order, rows in table   *)
(* order: select None -> keys, 'count' -> sizes, a column -> its values, a list -> list of columns.  *)
TbCols == <<"a", "b", "c">>
ColPos(c) == CHOOSE i \in 1..3 : TbCols[i] = c
RowLess(r1, i1, r2, i2, k) ==
  LET RECURSIVE L(_)
      L(j) == IF j > k THEN i1 < i2 ELSE IF r1[j] < r2[j] THEN TRUE ELSE IF r1[j] > r2[j] THEN FALSE ELSE L(j + 1)
  IN L(1)
RECURSIVE SortRows(_, _, _)
SortRows(s, I, k) == IF I = {} THEN <<>> ELSE
   LET m == CHOOSE i \in I : \A j \in I \ {i} : RowLess(s[i], i, s[j], j, k) IN <<s[m]>> \o SortRows(s, I \ {m}, k)
TbRows(t) == LET s == SortRows(t.rows, DOMAIN t.rows, t.nidx)
             IN IF t.w = <<>> THEN s ELSE SelectSeq(s, LAMBDA r : r[ColPos(t.w[1])] \in t.w[2])
RECURSIVE SortKeys(_)
SortKeys(S) == IF S = {} THEN <<>> ELSE LET m == CHOOSE a \in S : \A b \in S : a = b \/ LexLess(a, b) IN <<m>> \o SortKeys(S \ {m})
Groups(v, lev) ==
  LET key(r) == SubSeq(r, 1, lev)
      ks == SortKeys({key(v[i]) : i \in DOMAIN v})
  IN [g \in DOMAIN ks |-> LET rs == SelectSeq(v, LAMBDA r : key(r) = ks[g])
                          IN [key |-> ks[g], count |-> Len(rs), c |-> [i \in DOMAIN rs |-> rs[i][3]],
                              bc |-> <<[i \in DOMAIN rs |-> rs[i][2]], [i \in DOMAIN rs |-> rs[i][3]]>>]]
TbOut(t) ==
  LET v == TbRows(t)
  IN [rows |-> v,
      a |-> [i \in DOMAIN v |-> v[i][1]], b |-> [i \in DOMAIN v |-> v[i][2]], c |-> [i \in DOMAIN v |-> v[i][3]],
      groups |-> [lv \in 1..t.nidx |-> Groups(v, lv - 1)]]       \* groups[k] = groupby(level = k-1)
XInitTable == \E k \in 0..TbMax : \E rs \in [1..k -> TbVals \X TbVals \X TbVals] : \E ni \in TbIdx : \E w \in TbWheres :
                 /\ tb = [rows |-> rs, nidx |-> ni, w |-> w]
                 /\ par = <<>> /\ salt = 0 /\ ev = EmptyF /\ tab = <<{}, {}, {}>> /\ full = TRUE /\ hist = <<>> /\ n = 0 /\ ma = NoMA
                 /\ objs = <<>> /\ exp0 = 0 /\ lg = <<>>

(* ----------------------------------------------------------------- spec *)
XInit == CASE XMode = "hist" -> XInitHist [] XMode = "logged" -> XInitLogged [] XMode = "table" -> XInitTable
XNext == \/ (XMode = "hist" /\ XNextHist)
         \/ (XMode # "hist" /\ n = 0 /\ n' = 1 /\ UNCHANGED <<par, salt, ev, tab, full, hist, ma, objs, exp0, lg, tb>>)
XSpec == XInit /\ [][XNext]_xvars

XEmit == /\ (XMode = "hist" /\ n = MaxOps /\ Len(hist) > 1) => PrintT(ToJson(hist))
         /\ (XMode = "logged" /\ n = 1) => PrintT(ToJson([lg |-> lg, out |-> LgOut(lg.envs)]))
         /\ (XMode = "table" /\ n = 1) => PrintT(ToJson([tb |-> tb, out |-> TbOut(tb)]))

(* ------------------------------------------------- design facts (checked by TLC) *)
(* Referential consistency of every object of the workspace *)
RefConsist == XMode = "hist" =>
  \A i \in DOMAIN objs : LET r == Ref(objs[i].ev) IN \A k \in 1..3 : r[k] \subseteq objs[i].tab[k] /\ (objs[i].full => r[k] = objs[i].tab[k])
(* No call changes an existing object; `experiment = x` changes that attribute of that object only *)
IndepStep == \A i \in DOMAIN objs :
   \/ objs'[i] = objs[i]
   \/ LET h == hist'[Len(hist')] IN h.op = "setexp" /\ h.recv = i /\ objs'[i] = [objs[i] EXCEPT !.exp = h.args[1]]
CopyIndep == [][XMode = "hist" => IndepStep]_xvars
(* a copy, and a re-loaded log, hold what their source holds *)
NObjs(k) == Cardinality({m \in 1..k : hist[m].new # <<>>})          \* objects in the workspace after step k
CopyEqual == XMode = "hist" => \A k \in DOMAIN hist :
   /\ hist[k].op = "copy" => SameTables(objs[NObjs(k)], objs[hist[k].recv])
   /\ hist[k].op = "load" => (SameTables(objs[NObjs(k)], objs[1]) /\ objs[NObjs(k)].ev = ev /\ objs[NObjs(k)].tab = tab)
(* filters on different tables commute; a parameter filter and an interaction filter commute row by row *)
FilterCommute == DesignNow =>
  LET R == objs[1] IN
  /\ \A c1 \in EnvConds : \A c2 \in LrnConds \cup ValConds :
       LET a == FPar(FPar(R, c1), c2)  b == FPar(FPar(R, c2), c1) IN a.ev = b.ev /\ a.exp = b.exp /\ (R.full => a.tab = b.tab)
  /\ \A c1 \in LrnConds : \A c2 \in ValConds :
       LET a == FPar(FPar(R, c1), c2)  b == FPar(FPar(R, c2), c1) IN a.ev = b.ev /\ (R.full => a.tab = b.tab)
  /\ \A c1 \in EnvConds \cup LrnConds \cup ValConds : \A ci \in IntConds :
       /\ FIntRows(FPar(R, c1), ci) = {r \in FIntRows(R, ci) : <<r[1], r[2], r[3]>> \in DOMAIN FPar(R, c1).ev}
       /\ FIntPrefix(R, ci) => (FPar(FInt(R, ci), c1).ev = FInt(FPar(R, c1), ci).ev
                                /\ (R.full => FPar(FInt(R, ci), c1).tab = FInt(FPar(R, c1), ci).tab))
  /\ \A c \in EnvConds \cup LrnConds \cup ValConds : FPar(FPar(R, c), c).ev = FPar(R, c).ev          \* idempotent
(* where_best: one learner per (p, l) cell, a maximum, with all its evaluations there; selecting again selects the same *)
BestDesign == DesignNow =>
  \A b \in BestXArgs :
    LET evf == objs[1].ev
        pc == IF b[2] = <<>> THEN <<"environment_id">> ELSE b[2]
        S1 == Pair(DOMAIN evf, <<"learner_id">>, <<"environment_id">>)
        cellof(t) == <<Tup(pc, t), Tup(b[1], t)>>
        alts == BestAltsX(evf, b[1], b[2], b[3], TRUE)
        r0 == BestRec(evf, b[1], b[2], b[3])
    IN /\ alts # {}
       /\ (~r0.tie => alts = {Restrict(evf, r0.keep)})              \* agrees with ResultFin's definition where that one is defined
       /\ \A a \in alts :
            /\ DOMAIN a \subseteq S1 /\ \A t \in DOMAIN a : a[t] = evf[t]
            /\ \A t \in S1 : Cardinality({u[2] : u \in {w \in DOMAIN a : cellof(w) = cellof(t)}}) = 1
            /\ \A t \in DOMAIN a : \A u \in S1 : cellof(u) = cellof(t) =>
                 /\ ~RLess(Score(evf, {w \in S1 : cellof(w) = cellof(t) /\ w[2] = t[2]}, b[3]),
                           Score(evf, {w \in S1 : cellof(w) = cellof(t) /\ w[2] = u[2]}, b[3]))
                 /\ (u[2] = t[2] => u \in DOMAIN a)
            /\ BestAltsX(a, b[1], b[2], b[3], FALSE) = {a}
(* raw_contrast is antisymmetric: swapping l1 and l2 swaps every pair (and "x2-x1" becomes "x1-x2"), so every difference changes *)
(* sign and wins become losses; and only complete pairs are reported                                                              *)
SwapLab(l) == IF l[2] = <<>> THEN l ELSE <<l[2], l[1]>>
ContrastDesign == DesignNow =>
  \A c \in CtrArgs :
    LET evf == objs[1].ev
        cr == <<c[2], c[1], c[3], c[4], c[5], c[6]>>
    IN (~BadCol(c) /\ CtrDefined(evf, c) /\ c[1] \cap c[2] = {}) =>
         LET es == CtrEntries(evf, c[1], c[2], c[3], c[4], c[5], c[6])
             er == CtrEntries(evf, c[2], c[1], c[3], c[4], c[5], c[6])
         IN /\ CtrDefined(evf, cr)
            /\ er = {[lab |-> SwapLab(e.lab), t1 |-> e.t2, t2 |-> e.t1, y1 |-> e.y2, y2 |-> e.y1] : e \in es}
            /\ Wtl(er) = <<Wtl(es)[3], Wtl(es)[2], Wtl(es)[1]>>
            /\ CtrOut(evf, c).kind = CtrOut(evf, cr).kind
            /\ \A e \in es : /\ Tup(c[4], e.t1) \in c[1] /\ Tup(c[4], e.t2) \in c[2] /\ Tup(c[5], e.t1) = Tup(c[5], e.t2)
                             /\ e.y1[2] > 0 /\ e.y2[2] > 0
                             /\ (IsIdx(c[3]) => e.lab[1][1] <= evf[e.t1] /\ e.lab[1][1] <= evf[e.t2])
(* from_logged_envs: ids are 0..m-1 without gaps, equal parameters <=> equal id, one row per logged interaction *)
RECURSIVE SumLen(_, _)
SumLen(s, K) == IF K = <<>> THEN 0 ELSE s[Head(K)].len + SumLen(s, Tail(K))
LgDesign == XMode = "logged" =>
  LET o == LgOut(lg.envs) IN
  /\ \A T \in {o.envs, o.lrns, o.vals} :
       /\ {r[1] : r \in T} = 0..(Cardinality(T) - 1)
       /\ \A r1, r2 \in T : (r1[1] = r2[1]) = (r1[2] = r2[2])
  /\ Cardinality(o.rows) = SumLen(lg.envs, KeptPos(lg.envs))
  /\ \A r \in o.rows : \E e \in o.envs : \E l \in o.lrns : \E v \in o.vals : e[1] = r[1] /\ l[1] = r[2] /\ v[1] = r[3]
(* Table: the groups of every level partition the rows, in order *)
RECURSIVE Flat(_)
Flat(ss) == IF ss = <<>> THEN <<>> ELSE Head(ss) \o Flat(Tail(ss))
TbDesign == XMode = "table" =>
  LET o == TbOut(tb) IN
  \A lv \in DOMAIN o.groups :
     /\ Flat([g \in DOMAIN o.groups[lv] |-> o.groups[lv][g].c]) = o.c
     /\ \A g \in DOMAIN o.groups[lv] : o.groups[lv][g].count > 0 /\ Len(o.groups[lv][g].c) = o.groups[lv][g].count
=============================================================================
